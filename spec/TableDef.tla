------------------------------ MODULE TableDef ------------------------------
(***************************************************************************)
(* In-stream table definitions in the NCEP layout (C20).                   *)
(*                                                                         *)
(* A definition message has data category 11 and the template              *)
(*   1 03 000 0 31 001  0 00 001 0 00 002 0 00 003          Table A lines  *)
(*   1 01 000 0 31 001  3 00 004                            Table B lines  *)
(*   1 05 000 0 31 001  3 00 003 2 05 064 1 01 000 0 31 001 0 00 030   D   *)
(* whose data are character fields: F X Y of the descriptor, two name      *)
(* lines, units, sign and magnitude of the scale, sign and magnitude of    *)
(* the reference value, data width; for a sequence F X Y, a 64 character   *)
(* name and its member descriptors as 6 character strings.                 *)
(*                                                                         *)
(* The module (i) writes such messages for chosen entries (Framing.Message *)
(* - no pybufrkit), (ii) reads them back field by field (ParseDefinition;  *)
(* ReadBackIsWritten ties writer and reader), (iii) keeps the tables that  *)
(* are in force while a stream of definition messages is read: a later     *)
(* definition overrides an earlier one, descriptors never mentioned keep   *)
(* their standard meaning.  The entries in force are handed to FM94.tla    *)
(* (ExtraB / ExtraD) which then says how the data messages that follow     *)
(* decode.                                                                 *)
(***************************************************************************)
EXTENDS Framing, TLC, Json, FiniteSets

CONSTANTS Defs,        \* sequence of definition messages, each [b |-> sequence of B entries, d |-> sequence of D entries]
                       \*   B entry [id, unit (string of A-Z and blanks), scale, ref, width]   D entry [id, members]
          Streams      \* set of sequences of indices into Defs: the order in which definitions arrive

(* ---- text ---------------------------------------------------------------------------- *)
CharCode(c) ==
    CASE c = " " -> 32 [] c = "+" -> 43 [] c = "-" -> 45
      [] c = "0" -> 48 [] c = "1" -> 49 [] c = "2" -> 50 [] c = "3" -> 51 [] c = "4" -> 52
      [] c = "5" -> 53 [] c = "6" -> 54 [] c = "7" -> 55 [] c = "8" -> 56 [] c = "9" -> 57
      [] c = "A" -> 65 [] c = "B" -> 66 [] c = "C" -> 67 [] c = "D" -> 68 [] c = "E" -> 69 [] c = "F" -> 70
      [] c = "G" -> 71 [] c = "I" -> 73 [] c = "K" -> 75 [] c = "L" -> 76 [] c = "M" -> 77 [] c = "N" -> 78
      [] c = "O" -> 79 [] c = "P" -> 80 [] c = "R" -> 82 [] c = "S" -> 83 [] c = "T" -> 84 [] c = "U" -> 85
      [] OTHER -> 63
Txt(s, n) == [i \in 1..n |-> IF i <= Len(s) THEN CharCode(SubSeq(s, i, i)) ELSE 32]        \* left justified, blank padded
RECURSIVE Dec(_)
Dec(k) == IF k < 10 THEN <<48 + k>> ELSE Dec(k \div 10) \o <<48 + (k % 10)>>
Num(k, n) == LET d == Dec(k) IN [i \in 1..n |-> IF i <= Len(d) THEN d[i] ELSE 32]
Abs(x) == IF x < 0 THEN 0 - x ELSE x
Sign(x) == IF x < 0 THEN <<45>> ELSE <<43>>
Six(id) == LET d == Dec(id) IN [i \in 1..(6 - Len(d)) |-> 48] \o d                          \* "048001"

(* ---- writing a definition message ------------------------------------------------------ *)
DefTemplate == <<103000, 31001, 1, 2, 3, 101000, 31001, 300004, 105000, 31001, 300003, 205064, 101000, 31001, 30>>
BLine(e) == LET k == Six(e.id) IN
    SubSeq(k, 1, 1) \o SubSeq(k, 2, 3) \o SubSeq(k, 4, 6) \o Txt("TEST ELEMENT", 32) \o Txt("", 32) \o Txt(e.unit, 24)
    \o Sign(e.scale) \o Num(Abs(e.scale), 3) \o Sign(e.ref) \o Num(Abs(e.ref), 10) \o Num(e.width, 3)
RECURSIVE Cat(_, _, _)
Cat(F(_), s, i) == IF i > Len(s) THEN <<>> ELSE F(s[i]) \o Cat(F, s, i + 1)
DLine(e) == LET k == Six(e.id) IN
    SubSeq(k, 1, 1) \o SubSeq(k, 2, 3) \o SubSeq(k, 4, 6) \o Txt("TEST SEQUENCE", 64) \o <<Len(e.members)>> \o Cat(Six, e.members, 1)
DefOctets(df) ==
    <<1>> \o Txt("243", 3) \o Txt("TABLE A ENTRY", 32) \o Txt("", 32)
    \o <<Len(df.b)>> \o Cat(BLine, df.b, 1) \o <<Len(df.d)>> \o Cat(DLine, df.d, 1)
IdentDef == [Ident0 EXCEPT !.category = 11, !.mversion = 13, !.centre = 7]
DefMessage(df) == Message(3, IdentDef, <<>>, 1, TRUE, FALSE, DefTemplate, OctetsToBits(DefOctets(df)))

(* ---- reading one back (from the octets of the data section) ----------------------------- *)
Digit(o) == o - 48
RECURSIVE NumAt(_, _, _, _)
NumAt(m, at, n, acc) == IF n = 0 \/ m[at + 1] = 32 THEN acc ELSE NumAt(m, at + 1, n - 1, 10 * acc + Digit(m[at + 1]))   \* at: 0-based
RECURSIVE TextAt(_, _, _)
TextAt(m, at, n) == IF n = 0 \/ m[at + 1] = 32 THEN <<>> ELSE <<m[at + 1]>> \o TextAt(m, at + 1, n - 1)
BSize == 1 + 2 + 3 + 32 + 32 + 24 + 1 + 3 + 1 + 10 + 3
ReadB(m, at) ==
    [id |-> NumAt(m, at, 6, 0), unitOctets |-> TextAt(m, at + 70, 24),
     scale |-> (IF m[at + 95] = 45 THEN -1 ELSE 1) * NumAt(m, at + 95, 3, 0),
     ref |-> (IF m[at + 99] = 45 THEN -1 ELSE 1) * NumAt(m, at + 99, 10, 0),
     width |-> NumAt(m, at + 109, 3, 0)]
RECURSIVE ReadBs(_, _, _)
ReadBs(m, at, n) == IF n = 0 THEN <<>> ELSE <<ReadB(m, at)>> \o ReadBs(m, at + BSize, n - 1)
RECURSIVE ReadMembers(_, _, _)
ReadMembers(m, at, n) == IF n = 0 THEN <<>> ELSE <<NumAt(m, at, 6, 0)>> \o ReadMembers(m, at + 6, n - 1)
RECURSIVE ReadDs(_, _, _)
ReadDs(m, at, n) ==
    IF n = 0 THEN <<>>
    ELSE LET k == m[at + 71] IN <<[id |-> NumAt(m, at, 6, 0), members |-> ReadMembers(m, at + 71, k)]>> \o ReadDs(m, at + 71 + 6 * k, n - 1)
ParseDefinition(msg) ==
    LET h == ParseHeader(msg)
        a0 == h.data0                        \* 0-based offset of the first data octet
        na == msg[a0 + 1]
        b0 == a0 + 1 + na * 67
        nb == msg[b0 + 1]
        d0 == b0 + 1 + nb * BSize
        nd == msg[d0 + 1]
    IN [b |-> ReadBs(msg, b0 + 1, nb), d |-> ReadDs(msg, d0 + 1, nd)]

SameB(x, e) == x.id = e.id /\ x.scale = e.scale /\ x.ref = e.ref /\ x.width = e.width /\ x.unitOctets = TextAt(Txt(e.unit, 24), 0, 24)
ReadBackIsWritten ==
    \A i \in 1..Len(Defs) :
        LET p == ParseDefinition(DefMessage(Defs[i])) IN
        /\ Len(p.b) = Len(Defs[i].b) /\ \A j \in 1..Len(p.b) : SameB(p.b[j], Defs[i].b[j])
        /\ p.d = Defs[i].d

(* ---- the tables in force along a stream --------------------------------------------------- *)
VARIABLES stream, at, extraB, extraD
vars == <<stream, at, extraB, extraD>>

Init == stream \in Streams /\ at = 0 /\ extraB = <<>> /\ extraD = <<>>

Key(id) == LET RECURSIVE S(_) S(o) == IF o = <<>> THEN "" ELSE <<"0", "1", "2", "3", "4", "5", "6", "7", "8", "9">>[o[1] - 47] \o S(Tail(o)) IN S(Six(id))
Over(a, b) == [k \in (DOMAIN a) \cup (DOMAIN b) |-> IF k \in DOMAIN a THEN a[k] ELSE b[k]]
BEntries(df) == [k \in {Key(df.b[j].id) : j \in 1..Len(df.b)} |->
                    LET e == df.b[CHOOSE j \in 1..Len(df.b) : Key(df.b[j].id) = k /\ \A q \in (j + 1)..Len(df.b) : Key(df.b[q].id) # k] IN
                    <<"TEST ELEMENT", e.unit, e.scale, e.ref, e.width>>]
DEntries(df) == [k \in {Key(df.d[j].id) : j \in 1..Len(df.d)} |->
                    LET e == df.d[CHOOSE j \in 1..Len(df.d) : Key(df.d[j].id) = k /\ \A q \in (j + 1)..Len(df.d) : Key(df.d[q].id) # k] IN
                    <<"TEST SEQUENCE", [q \in 1..Len(e.members) |-> Key(e.members[q])]>>]

ReadDefinition ==
    /\ at < Len(stream)
    /\ at' = at + 1
    /\ extraB' = Over(BEntries(Defs[stream[at + 1]]), extraB)
    /\ extraD' = Over(DEntries(Defs[stream[at + 1]]), extraD)
    /\ UNCHANGED stream
Next == ReadDefinition

(* the entry in force for an id is the one of the LAST definition message that mentions it *)
LastMention(k, isB) ==
    LET ms == {i \in 1..at : k \in DOMAIN (IF isB THEN BEntries(Defs[stream[i]]) ELSE DEntries(Defs[stream[i]]))} IN
    IF ms = {} THEN 0 ELSE CHOOSE i \in ms : \A j \in ms : j <= i
LaterDefinitionOverrides ==
    /\ \A k \in DOMAIN extraB : extraB[k] = BEntries(Defs[stream[LastMention(k, TRUE)]])[k]
    /\ \A k \in DOMAIN extraD : extraD[k] = DEntries(Defs[stream[LastMention(k, FALSE)]])[k]
OnlyMentionedAreExtra ==
    /\ \A k \in DOMAIN extraB : LastMention(k, TRUE) # 0
    /\ \A k \in DOMAIN extraD : LastMention(k, FALSE) # 0

Emit == at = Len(stream) =>
    PrintT(ToJson([stream |-> stream, msgs |-> [i \in 1..Len(stream) |-> DefMessage(Defs[stream[i]])],
                   extraB |-> extraB, extraD |-> extraD]))
=============================================================================
