---------------------------- MODULE PathParser ----------------------------
(***************************************************************************)
(* The data-query path language of pybufrkit (docs/internals.rst):         *)
(*                                                                         *)
(*   <query_expr>  = [<subset_spec>] <path_spec>+                          *)
(*   <subset_spec> = '@' <slice>                                           *)
(*   <path_spec>   = <separator> <descriptor_id> [<slice>]                 *)
(*   <separator>   = '/' | '.' | '>'                                       *)
(*                                                                         *)
(* whitespace is ignored, the separator of the first path_spec may be      *)
(* omitted (defaults to '>') when there is no subset_spec, the first       *)
(* separator is never '.', a descriptor id is one or more of [0-9A-Z], a   *)
(* slice is a Python slice: 1..3 optionally signed (+/-) integers separated *)
(* ':' (a single element may not be empty).                                *)
(*                                                                         *)
(* Two independent definitions:                                            *)
(*   Grammar(s) - a recursive-descent recogniser over the stripped string  *)
(*   the automaton (variables below) - one step per input character,       *)
(*                shaped like NodePathParser (same nine states)            *)
(* The input string itself is built one character per step, so TLC visits  *)
(* every string up to MaxLen and checks the two definitions against each   *)
(* other at every prefix.                                                  *)
(***************************************************************************)
EXTENDS Naturals, Integers, Sequences, TLC, Json

CONSTANTS Sigma,     \* the input alphabet (one-character strings)
          MaxLen     \* longest input explored

Digits == {"0", "1", "2", "3", "4", "5", "6", "7", "8", "9"}
Upper  == {"A", "B", "C", "D", "E", "F", "G", "H", "I", "J", "K", "L", "M",
           "N", "O", "P", "Q", "R", "S", "T", "U", "V", "W", "X", "Y", "Z"}
Seps   == {"/", ".", ">"}
Specials == {"@", "[", "]", ":"} \cup Seps
IsSpace(c) == c \in {" ", "\t", "\n"}

DigitVal(c) == CASE c = "0" -> 0 [] c = "1" -> 1 [] c = "2" -> 2 [] c = "3" -> 3 [] c = "4" -> 4
                 [] c = "5" -> 5 [] c = "6" -> 6 [] c = "7" -> 7 [] c = "8" -> 8 [] c = "9" -> 9

IsId(w)  == Len(w) >= 1 /\ \A i \in 1..Len(w) : w[i] \in Digits \cup Upper
Unsigned(w) == IF Len(w) >= 1 /\ w[1] \in {"-", "+"} THEN Tail(w) ELSE w
IsInt(w) == Len(Unsigned(w)) >= 1 /\ \A i \in 1..Len(Unsigned(w)) : Unsigned(w)[i] \in Digits
RECURSIVE NatVal(_, _, _)
NatVal(w, i, acc) == IF i > Len(w) THEN acc ELSE NatVal(w, i + 1, 10 * acc + DigitVal(w[i]))
IntVal(w) == IF w[1] = "-" THEN 0 - NatVal(Tail(w), 1, 0) ELSE NatVal(Unsigned(w), 1, 0)

(* ---- slice values (None is the empty sequence) -------------------------- *)
None == <<>>
Some(n) == <<n>>
SliceAll == [kind |-> "slice", start |-> None, stop |-> None, step |-> None]
IntIdx(n) == [kind |-> "int", start |-> Some(n), stop |-> None, step |-> None]
Opt(w) == IF w = <<>> THEN None ELSE Some(IntVal(w))

(* the slice object denoted by a list of 0..3 element words *)
SliceOf(elems) ==
    CASE Len(elems) = 0 -> SliceAll
      [] Len(elems) = 1 ->
            LET n == IntVal(elems[1]) IN
            IF n >= 0 THEN IntIdx(n)
            ELSE [kind |-> "slice", start |-> Some(n), stop |-> (IF n = -1 THEN None ELSE Some(n + 1)), step |-> None]
      [] Len(elems) = 2 -> [kind |-> "slice", start |-> Opt(elems[1]), stop |-> Opt(elems[2]), step |-> None]
      [] Len(elems) = 3 -> [kind |-> "slice", start |-> Opt(elems[1]), stop |-> Opt(elems[2]), step |-> Opt(elems[3])]

ElemsOk(elems) ==
    /\ Len(elems) \in 1..3
    /\ \A i \in 1..Len(elems) : elems[i] = <<>> \/ IsInt(elems[i])
    /\ (Len(elems) = 1 => elems[1] # <<>>)

(***************************************************************************)
(* (i) The documented grammar as a recogniser                              *)
(***************************************************************************)
Strip(s) == SelectSeq(s, LAMBDA c : ~IsSpace(c))

RECURSIVE WordEnd(_, _)
WordEnd(s, i) == IF i > Len(s) \/ s[i] \in Specials THEN i ELSE WordEnd(s, i + 1)
Word(s, i) == SubSeq(s, i, WordEnd(s, i) - 1)

Reject == [ok |-> FALSE]

(* s[i] = "[" ; returns [ok, next, elems] *)
RECURSIVE SliceElems(_, _, _)
SliceElems(s, i, acc) ==
    LET j == WordEnd(s, i)  w == SubSeq(s, i, j - 1) IN
    IF j > Len(s) THEN Reject
    ELSE IF s[j] = ":" THEN SliceElems(s, j + 1, Append(acc, w))
    ELSE IF s[j] = "]" THEN [ok |-> TRUE, next |-> j + 1, elems |-> Append(acc, w)]
    ELSE Reject
GSlice(s, i) ==
    IF i > Len(s) \/ s[i] # "[" THEN Reject
    ELSE LET r == SliceElems(s, i + 1, <<>>) IN
         IF r.ok /\ ElemsOk(r.elems) THEN r ELSE Reject

(* one or more path_specs starting at i; sepOpt = the separator may be omitted *)
RECURSIVE GComps(_, _, _, _)
GComps(s, i, acc, first) ==
    IF i > Len(s) THEN (IF acc = <<>> THEN Reject ELSE [ok |-> TRUE, comps |-> acc])
    ELSE
      LET hasSep == s[i] \in Seps
          sep == IF hasSep THEN s[i] ELSE ">"
          k == IF hasSep THEN i + 1 ELSE i
          w == Word(s, k)
          e == WordEnd(s, k)
      IN IF ~hasSep /\ first # "optional" THEN Reject
         ELSE IF first # "no" /\ sep = "." THEN Reject
         ELSE IF ~IsId(w) THEN Reject
         ELSE IF e <= Len(s) /\ s[e] = "["
              THEN LET sl == GSlice(s, e) IN
                   IF ~sl.ok THEN Reject
                   ELSE GComps(s, sl.next, Append(acc, [sep |-> sep, id |-> w, slice |-> SliceOf(sl.elems)]), "no")
              ELSE GComps(s, e, Append(acc, [sep |-> sep, id |-> w, slice |-> SliceAll]), "no")

Grammar(raw) ==
    LET s == Strip(raw) IN
    IF s = <<>> THEN Reject
    ELSE IF s[1] = "@"
         THEN LET sl == GSlice(s, 2) IN
              IF ~sl.ok THEN Reject
              ELSE LET c == GComps(s, sl.next, <<>>, "required") IN
                   IF c.ok THEN [ok |-> TRUE, subset |-> SliceOf(sl.elems), comps |-> c.comps] ELSE Reject
         ELSE LET c == GComps(s, 1, <<>>, "optional") IN
              IF c.ok THEN [ok |-> TRUE, subset |-> SliceAll, comps |-> c.comps] ELSE Reject

(* ---- printing (NodePath.__str__) and the round trip --------------------- *)
RECURSIVE NatChars(_)
DigitChar(d) == CASE d = 0 -> "0" [] d = 1 -> "1" [] d = 2 -> "2" [] d = 3 -> "3" [] d = 4 -> "4"
                  [] d = 5 -> "5" [] d = 6 -> "6" [] d = 7 -> "7" [] d = 8 -> "8" [] d = 9 -> "9"
NatChars(n) == IF n < 10 THEN <<DigitChar(n)>> ELSE NatChars(n \div 10) \o <<DigitChar(n % 10)>>
IntChars(n) == IF n < 0 THEN <<"-">> \o NatChars(0 - n) ELSE NatChars(n)
OptChars(o) == IF o = None THEN <<>> ELSE IntChars(o[1])
SliceChars(sl) ==
    IF sl.kind = "int" THEN <<"[">> \o IntChars(sl.start[1]) \o <<"]">>
    ELSE <<"[">> \o OptChars(sl.start) \o <<":">> \o OptChars(sl.stop) \o <<":">> \o OptChars(sl.step) \o <<"]">>
RECURSIVE CompsChars(_)
CompsChars(cs) == IF cs = <<>> THEN <<>>
                  ELSE <<Head(cs).sep>> \o Head(cs).id \o SliceChars(Head(cs).slice) \o CompsChars(Tail(cs))
PrintPath(p) == <<"@">> \o SliceChars(p.subset) \o CompsChars(p.comps)

(***************************************************************************)
(* (ii) The character automaton (one step per character)                   *)
(***************************************************************************)
VARIABLES
    input,    \* characters consumed so far
    st,       \* automaton state, the nine states of NodePathParser plus "error"
    token,    \* characters of the current word
    cid,      \* id of the component being built
    csep,     \* its separator
    elems,    \* slice elements collected so far (words)
    subset,   \* subset slice
    comps     \* finished components

vars == <<input, st, token, cid, csep, elems, subset, comps>>

States == {"start", "@", "@[", "@:", "@]", "id", "[", ":", "]", "error"}

Init ==
    /\ input = <<>> /\ st = "start" /\ token = <<>> /\ cid = <<>> /\ csep = ">"
    /\ elems = <<>> /\ subset = SliceAll /\ comps = <<>>

Err == /\ st' = "error" /\ UNCHANGED <<token, cid, csep, elems, subset, comps>>

Comp == [sep |-> csep, id |-> cid, slice |-> SliceOf(elems)]

(* what a separator does, depending on the state *)
OnSeparator(c) ==
    CASE st = "start" /\ c # "." ->
            /\ st' = "id" /\ csep' = c /\ UNCHANGED <<token, cid, elems, subset, comps>>
      [] st = "id" /\ IsId(token) ->
            /\ comps' = Append(comps, [sep |-> csep, id |-> token, slice |-> SliceAll])
            /\ st' = "id" /\ csep' = c /\ token' = <<>> /\ UNCHANGED <<cid, elems, subset>>
      [] st = "@]" /\ c # "." ->
            /\ subset' = SliceOf(elems) /\ elems' = <<>>
            /\ st' = "id" /\ csep' = c /\ UNCHANGED <<token, cid, comps>>
      [] st = "]" ->
            /\ comps' = Append(comps, Comp) /\ elems' = <<>>
            /\ st' = "id" /\ csep' = c /\ UNCHANGED <<token, cid, subset>>
      [] OTHER -> Err

OnLeftBracket ==
    CASE st = "@" -> /\ st' = "@[" /\ UNCHANGED <<token, cid, csep, elems, subset, comps>>
      [] st = "id" /\ IsId(token) ->
            /\ st' = "[" /\ cid' = token /\ token' = <<>> /\ UNCHANGED <<csep, elems, subset, comps>>
      [] OTHER -> Err

OnColonOrRight(c) ==
    IF st \notin {"[", ":", "@[", "@:"} THEN Err
    ELSE IF c = "]" /\ token = <<>> /\ st \in {"[", "@["} THEN Err
    ELSE IF token # <<>> /\ ~IsInt(token) THEN Err
    ELSE IF c = ":" /\ Len(elems) >= 2 THEN Err            \* at most three indices
    ELSE /\ elems' = Append(elems, token) /\ token' = <<>>
         /\ st' = IF c = ":" THEN (IF st \in {"@[", "@:"} THEN "@:" ELSE ":")
                  ELSE (IF st \in {"@[", "@:"} THEN "@]" ELSE "]")
         /\ UNCHANGED <<cid, csep, subset, comps>>

OnOther(c) ==
    CASE st \in {"id", "@[", "@:", "[", ":"} ->
            /\ token' = Append(token, c) /\ UNCHANGED <<st, cid, csep, elems, subset, comps>>
      [] st = "start" /\ c \in Digits \cup Upper ->
            /\ st' = "id" /\ csep' = ">" /\ token' = <<c>> /\ UNCHANGED <<cid, elems, subset, comps>>
      [] OTHER -> Err

Feed(c) ==
    /\ Len(input) < MaxLen
    /\ input' = Append(input, c)
    /\ IF st = "error" THEN UNCHANGED <<st, token, cid, csep, elems, subset, comps>>
       ELSE IF IsSpace(c) THEN UNCHANGED <<st, token, cid, csep, elems, subset, comps>>
       ELSE IF c = "@" THEN (IF st = "start" THEN st' = "@" /\ UNCHANGED <<token, cid, csep, elems, subset, comps>> ELSE Err)
       ELSE IF c = "[" THEN OnLeftBracket
       ELSE IF c \in {":", "]"} THEN OnColonOrRight(c)
       ELSE IF c \in Seps THEN OnSeparator(c)
       ELSE OnOther(c)

Next == \E c \in Sigma : Feed(c)

Spec == Init /\ [][Next]_vars

(* the verdict of the automaton if the input ended here *)
Finish ==
    IF st = "id" /\ IsId(token)
      THEN [ok |-> TRUE, subset |-> subset, comps |-> Append(comps, [sep |-> csep, id |-> token, slice |-> SliceAll])]
    ELSE IF st = "]"
      THEN [ok |-> TRUE, subset |-> subset, comps |-> Append(comps, Comp)]
    ELSE Reject

(* ---- properties ---------------------------------------------------------- *)
TypeOK == st \in States /\ Len(input) <= MaxLen

(* at every prefix the automaton and the grammar agree on verdict and on the parsed value *)
SMAgreesWithGrammar == Finish = Grammar(input)

(* nothing consumed is silently dropped: an accepted string is reproduced by printing
   its parse, up to whitespace, the optional leading '>' and the spelling of slices *)
PrintParseFixpoint ==
    LET g == Grammar(input) IN
    g.ok => LET g2 == Grammar(PrintPath(g)) IN g2.ok /\ g2.subset = g.subset /\ g2.comps = g.comps

(* an error state is absorbing: no accepted string has a rejected prefix state *)
ErrorAbsorbing == [][st = "error" => st' = "error"]_vars

Emit == PrintT(ToJson([s |-> input, r |-> Finish]))
=============================================================================
