------------------------------ MODULE TablesMC ------------------------------
(***************************************************************************)
(* Model of template construction (C14).                                   *)
(*                                                                         *)
(* LISTS.  Every descriptor list up to MaxLen over a small alphabet        *)
(* (elements, class-31 factors, fixed and delayed replications with X up   *)
(* to 3, an operator, two Table D sequences) is built one descriptor at a  *)
(* time.  For the well-formed ones (every replication finds its factor and *)
(* its X descriptors) Tables!Build must own exactly X descriptors per      *)
(* replication, put a class-31 element behind every delayed replication    *)
(* and flatten back to the list it was built from.                         *)
(*                                                                         *)
(* TABLE D.  In "tabled" mode every sequence of the loaded table is one    *)
(* state: its full expansion and the Table B attributes of every element   *)
(* it reaches are emitted for comparison with the library.                 *)
(***************************************************************************)
EXTENDS Tables, FiniteSets

CONSTANTS Alphabet,     \* set of descriptor ids lists are made of
          MaxLen,
          What,         \* "lists" | "tabled" | "tableb" | "validate"
          Recorded      \* "validate": sequence of [ids, shape] recorded from the implementation

VARIABLES ids, key
vars == <<ids, key>>

(* ---- well-formedness of a list, by direct counting (independent of Build) ------- *)
RECURSIVE WFFrom(_, _)
(* can the descriptors ids[i..] be consumed completely? *)
Need(ids_, i) ==          \* number of list positions descriptor i takes together with what it owns, 0 = ill-formed
    LET h == ids_[i] IN
    IF FF(h) # 1 THEN 1
    ELSE LET delayed == YY(h) = 0
             first == IF delayed THEN i + 2 ELSE i + 1
             last == first + XX(h) - 1
         IN IF last > Len(ids_) THEN 0
            ELSE IF delayed /\ ~(FF(ids_[i + 1]) = 0 /\ XX(ids_[i + 1]) = 31) THEN 0
            ELSE last - i + 1
(* every replication inside the list is complete, and nested replications stay inside their parent *)
RECURSIVE Nested(_, _, _)
Nested(ids_, i, stop) ==      \* positions i..stop form complete constructs
    IF i > stop THEN TRUE
    ELSE LET n == Need(ids_, i) IN
         IF n = 0 \/ i + n - 1 > stop THEN FALSE
         ELSE IF FF(ids_[i]) = 1
              THEN LET first == IF YY(ids_[i]) = 0 THEN i + 2 ELSE i + 1 IN
                   Nested(ids_, first, i + n - 1) /\ Nested(ids_, i + n, stop)
              ELSE Nested(ids_, i + 1, stop)
WFFrom(ids_, i) == Nested(ids_, i, Len(ids_))
WellFormed(ids_) == WFFrom(ids_, 1)

ASSUME TLCSet(41, Recorded)
Rec == TLCGet(41)
Init == IF What = "lists" THEN ids = <<>> /\ key = ""
        ELSE IF What = "validate" THEN \E i \in 1..Len(Rec) : ids = Rec[i].ids /\ key = ToString(i)
        ELSE IF What = "tabled" THEN ids = <<>> /\ key \in DOMAIN TableD
        ELSE ids = <<>> /\ key \in DOMAIN TableB

Extend == /\ What = "lists" /\ Len(ids) < MaxLen
          /\ \E d \in Alphabet : ids' = Append(ids, d)
          /\ UNCHANGED key
Next == Extend

Prog == Build(ids)

(* ---- properties on lists --------------------------------------------------------------- *)
FlattenBuildIsId == (What = "lists" /\ WellFormed(ids)) => Flatten(Prog) = ids

(* members of the construct at program index i, counted in descriptors of the original list *)
RECURSIVE CountTop(_, _, _)
CountTop(p, i, stop) ==       \* number of top-level descriptors among program positions i..stop
    IF i > stop THEN 0
    ELSE LET ins == p[i] IN
         IF ins.k = "S" THEN 1 + CountTop(p, i + 1 + ins.span, stop)
         ELSE 1 + CountTop(p, i + 1, stop)
(* a replication owns exactly X descriptors as written (a sequence counts one, a nested replication counts
   itself, its factor and its members) *)
RECURSIVE CountWritten(_, _, _)
CountWritten(p, i, stop) ==
    IF i > stop THEN 0
    ELSE LET ins == p[i] IN
         IF ins.k = "S" THEN 1 + CountWritten(p, i + 1 + ins.span, stop)
         ELSE IF ins.k = "R" THEN 1 + CountWritten(p, i + 1, i + ins.span) + CountWritten(p, i + 1 + ins.span, stop)
         ELSE IF ins.k = "D" THEN 2 + CountWritten(p, i + 2, i + 1 + ins.span) + CountWritten(p, i + 2 + ins.span, stop)
         ELSE 1 + CountWritten(p, i + 1, stop)
OwnershipCount ==
    (What = "lists" /\ WellFormed(ids)) =>
        \A i \in 1..Len(Prog) :
            /\ Prog[i].k = "R" => CountWritten(Prog, i + 1, i + Prog[i].span) = XX(Prog[i].id)
            /\ Prog[i].k = "D" => CountWritten(Prog, i + 2, i + 1 + Prog[i].span) = XX(Prog[i].id)
FactorIsClass31 == (What = "lists" /\ WellFormed(ids)) => FactorsAreClass31(Prog)
(* sequences expand to their table members, recursively *)
SequencesExpand ==
    (What = "lists" /\ WellFormed(ids)) =>
        \A i \in 1..Len(Prog) : Prog[i].k = "S" => CountTop(Prog, i + 1, i + Prog[i].span) = Len(SeqMembers(Prog[i].id))

EmitList == (What = "lists" /\ ids # <<>> /\ WellFormed(ids)) => PrintT(ToJson([ids |-> ids, prog |-> Prog]))

(* ---- code -> spec: template shapes recorded from the implementation for longer, deeper lists ------- *)
Shape(p) == [i \in 1..Len(p) |-> <<p[i].k, p[i].id, p[i].span, p[i].cnt>>]
EmitVerdict == What = "validate" =>
    PrintT(ToJson([i |-> ToInt(key), wf |-> WellFormed(ids), same |-> Shape(Prog) = Rec[ToInt(key)].shape,
                   flatten |-> Flatten(Prog) = ids]))

(* ---- Table D / Table B as data ----------------------------------------------------------- *)
KeyId == ToInt(key)
ElementsOf(flat) == {flat[i] : i \in {j \in 1..Len(flat) : FF(flat[j]) = 0}}
EmitTableD == What = "tabled" =>
    LET p == Build(<<KeyId>>) flat == Expand(p) IN
    PrintT(ToJson([seq |-> KeyId, flat |-> flat, defined |-> Defined(p)]))
EmitTableB == What = "tableb" =>
    PrintT(ToJson([id |-> KeyId, unit |-> BUnit(KeyId), scale |-> BScale(KeyId), ref |-> BRef(KeyId), width |-> BWidth(KeyId),
                   kind |-> Kind(KeyId)]))
=============================================================================
