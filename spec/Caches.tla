------------------------------- MODULE Caches -------------------------------
(***************************************************************************)
(* Hidden state (C13): the caches that survive from one operation to the   *)
(* next, and the histories that exercise them.                             *)
(*                                                                         *)
(*   tg    the process-wide table-group cache: keys in insertion order,    *)
(*         bounded by TgLimit; on overflow the most recently inserted      *)
(*         entries are dropped (dict.popitem) before the new one is added  *)
(*   comp  the compiled-template cache of the decoder object in use:       *)
(*         (template, table key) pairs, bounded by CompMax (-1: no         *)
(*         compilation), arbitrary eviction                                *)
(*   objs  the message objects obtained so far (one per message id, the    *)
(*         latest decode), with the renderings / queries already applied   *)
(*                                                                         *)
(* Every operation has ONE correct result that depends on the message      *)
(* only; the model has no way to express anything else - what it           *)
(* contributes is the space of histories: every transition of this state   *)
(* graph (emitted through the action constraint EmitTransition, with the   *)
(* shortest path that leads to it) is executed against the implementation  *)
(* and its result compared with the result obtained in a fresh process.    *)
(***************************************************************************)
EXTENDS Naturals, Integers, Sequences, FiniteSets, TLC, Json

CONSTANTS Msgs,        \* message ids 1..n
          KeyOf,       \* message id -> table-group key (an integer)
          TmplOf,      \* message id -> template id
          Bad,         \* message ids whose decode fails (after the tables were loaded): at the stop signature, while the template
                       \* is built, in the middle of the data
          Lenient,     \* the damaged messages that decode when expected values are not enforced (a subset of Bad)
          Strict,      \* message ids whose identification names tables that are not all installed: the decoder
                       \* falls back to the tables that exist, the encoder (which does not) refuses
          TgLimit, CompMax, MaxLen

VARIABLES tg, comp, objs, lenient, resolved, failed, metaonly, hist
vars == <<tg, comp, objs, lenient, resolved, failed, metaonly, hist>>
View == <<tg, comp, objs, lenient, resolved, failed, metaonly>>

(* lenient: the coder object has been used with expected values not enforced - a per-call option that must leave
   nothing behind, which is why the model keeps it as state: every operation is exercised before AND after it *)
(* resolved: which path asked first for the tables of an incomplete identification ("none", "forgiving" = decoder,
   "strict" = encoder) - again state that must not exist, kept so that both orders are exercised *)
(* failed: the messages whose decode has failed already - a failure must leave nothing behind (a template remembered before it was
   built, a half-filled cache entry), so the same failing message is tried again and every other operation is exercised after it *)
Init == tg = <<>> /\ comp = {} /\ objs = {} /\ lenient = FALSE /\ resolved = "none" /\ failed = {} /\ metaonly = FALSE /\ hist = <<>>

Has(s, x) == \E i \in 1..Len(s) : s[i] = x
(* loading a table group: drop the most recent entries until there is room, then insert *)
Load(k) == IF Has(tg, k) THEN tg
           ELSE IF Len(tg) >= TgLimit THEN Append(SubSeq(tg, 1, TgLimit - 1), k) ELSE Append(tg, k)
Compile(t, k) ==
    IF CompMax < 0 \/ <<t, k>> \in comp THEN {comp}
    ELSE IF CompMax = 0 THEN {comp}
    ELSE IF Cardinality(comp) >= CompMax THEN {(comp \ {e}) \cup {<<t, k>>} : e \in comp}
    ELSE {comp \cup {<<t, k>>}}

Step(op, m) == hist' = Append(hist, [op |-> op, m |-> m]) /\ Len(hist) < MaxLen

Decode(m) == /\ m \in Msgs \ Bad /\ Step("decode", m)
             /\ tg' = Load(KeyOf[m]) /\ comp' \in Compile(TmplOf[m], KeyOf[m]) /\ objs' = objs \cup {m} /\ UNCHANGED <<lenient, failed, metaonly>>
             /\ resolved' = IF m \in Strict /\ resolved = "none" THEN "forgiving" ELSE resolved
DecodeFails(m) == /\ m \in Bad /\ Step("decode_fails", m)
                  /\ tg' = Load(KeyOf[m]) /\ failed' = failed \cup {m} /\ UNCHANGED <<comp, objs, lenient, resolved, metaonly>>
(* the damaged message decoded with expected values not enforced (ignore_value_expectation): it succeeds; the option
   belongs to that call only - afterwards the same coder must refuse the message again *)
DecodeLenient(m) == /\ m \in Bad /\ Step("decode_ive", m)
                    /\ m \in Lenient /\ tg' = Load(KeyOf[m]) /\ lenient' = TRUE /\ UNCHANGED <<comp, objs, resolved, failed, metaonly>>
Encode(m) == /\ m \in Msgs \ (Bad \cup Strict) /\ Step("encode", m)
             /\ tg' = Load(KeyOf[m]) /\ comp' \in Compile(TmplOf[m], KeyOf[m]) /\ UNCHANGED <<objs, lenient, resolved, failed, metaonly>>
(* the encoder is asked for an identification whose tables are not all there: refused, nothing is loaded *)
EncodeRefused(m) == /\ m \in Strict /\ Step("encode", m)
                    /\ resolved' = IF resolved = "none" THEN "strict" ELSE resolved
                    /\ UNCHANGED <<tg, comp, objs, lenient, failed, metaonly>>
(* a metadata-only decode on the same coder object: another per-call option (like the lenient decode) that must leave nothing
   behind - kept as state so that every operation is exercised before and after it *)
Info(m) == /\ m \in Msgs \ Strict /\ Step("info", m)
           /\ metaonly' = TRUE /\ UNCHANGED <<tg, comp, objs, lenient, resolved, failed>>
Use(op, m) == /\ m \in objs /\ Step(op, m) /\ UNCHANGED <<tg, comp, objs, lenient, resolved, failed, metaonly>>

Next == \E m \in Msgs : Decode(m) \/ DecodeFails(m) \/ DecodeLenient(m) \/ Info(m) \/ Encode(m) \/ EncodeRefused(m) \/ Use("query", m) \/ Use("render", m) \/ Use("rewire", m)

SizeBounded == Len(tg) <= TgLimit /\ (CompMax >= 0 => Cardinality(comp) <= CompMax)
NoDuplicateKeys == \A i, j \in 1..Len(tg) : tg[i] = tg[j] => i = j
(* a key that was requested last is always present afterwards *)
LastRequestedIsCached == (hist # <<>> /\ hist[Len(hist)].op \in {"decode", "encode", "decode_fails", "decode_ive"} /\ ~(hist[Len(hist)].op = "encode" /\ hist[Len(hist)].m \in Strict))
        => Has(tg, KeyOf[hist[Len(hist)].m])

EmitTransition == PrintT(ToJson(hist'))
=============================================================================
