------------------------------- MODULE Stream -------------------------------
(***************************************************************************)
(* Scanning a byte stream for BUFR messages (C11, C12, part of C17).       *)
(*                                                                         *)
(* A stream is a sequence of segments chosen by TLC: separators (bytes     *)
(* without the start signature) and messages taken from a small pool       *)
(* (mixed editions, compressed or not, one whose character payload holds   *)
(* the bytes BUFR and 7777), each message optionally damaged by one fault  *)
(* that leaves its total length intact.  The concrete octets of the stream *)
(* are assembled here (Framing.Message), never by pybufrkit.               *)
(*                                                                         *)
(* The scanner is modelled like the loop of generate_bufr_message, one     *)
(* action per exit of an iteration:                                        *)
(*    Find / Stop            locate the next start signature               *)
(*    YieldDecoded           successful decode, advance by the extent      *)
(*    FilterOut              metadata filter says no, advance, no yield    *)
(*    SkipByDeclared / SkipByOne     failed decode under continue-on-error *)
(*    Raise                  failed decode without continue-on-error       *)
(* Whether a decode at an offset succeeds is decided from the octets and   *)
(* the known damage, not by calling a decoder: full decoding fails on      *)
(* every damaged message and on every offset that is not the start of a    *)
(* message; metadata-only decoding reads sections 0-3 and skips the        *)
(* declared extent of section 4, so it succeeds exactly when that bounded  *)
(* parse succeeds (InfoOK) - a damaged stop signature or an undefined      *)
(* descriptor is invisible to it.                                          *)
(***************************************************************************)
EXTENDS Framing, TLC, Json, FiniteSets

CONSTANTS MaxMsgs,        \* streams of 0..MaxMsgs messages
          PoolIdx,        \* subset of 1..6 : which pool messages may be used
          SepIdx,         \* subset of 1..5 : which separators may be used
          Faults,         \* subset of FaultKinds (without "none") that may be applied
          Modes,          \* subset of [info: BOOLEAN, cont: BOOLEAN, filt: BOOLEAN, ive: BOOLEAN]
                          \* ive: expected values (the signatures) are not enforced - ignore_value_expectation
          UniformSeps,    \* TRUE: all separators of a stream are the same one (keeps 3-message streams small)
          WithCuts,       \* TRUE: additionally every proper prefix of every pool message, alone in the stream
          SweepLo, SweepHi, SweepChunk   \* length sweep: messages with SweepLo..SweepHi filler octets (consecutive total
                                         \* lengths, so that every value of the low length octet occurs), SweepChunk per stream;
                                         \* SweepHi < SweepLo: no sweep

FaultKinds == {"stop", "stopff", "undef_elem", "undef_elem2", "undef_seq", "shrink1", "grow1", "shrink3", "grow3", "shrink4", "grow4"}

(* ---- the pool ---------------------------------------------------------------- *)
Txt(s) == [i \in 1..Len(s) |-> CASE s[i] = "B" -> 66 [] s[i] = "U" -> 85 [] s[i] = "F" -> 70 [] s[i] = "R" -> 82
                                  [] s[i] = "7" -> 55 [] s[i] = "x" -> 120 [] s[i] = " " -> 32 [] OTHER -> 46]
Decoy == <<120, 66, 85, 70, 82, 55, 55, 55, 55, 66, 85, 70, 82, 120, 55, 55, 55, 55, 32, 32>>   \* "xBUFR7777BUFRx7777  "

PoolMsg(k) ==
    CASE k = 1 -> Message(4, Ident0, <<>>, 1, TRUE, FALSE, <<1001>>, <<0, 0, 0, 0, 1, 0, 1>>)
      [] k = 2 -> Message(3, Ident0, <<>>, 1, TRUE, FALSE, <<1015>>, OctetsToBits(Decoy))
      [] k = 3 -> Message(4, Ident0, <<>>, 2, TRUE, TRUE, <<2001>>, <<0, 1, 0, 0, 0, 0, 0, 0>>)
      [] k = 4 -> Message(2, Ident0, <<>>, 1, TRUE, FALSE, <<12001, 2001>>, UintBits(2501, 12) \o <<1, 0>>)
      \* 221001: the next descriptor carries no data - but it still has to be a defined one
      [] k = 5 -> Message(4, Ident0, <<>>, 1, TRUE, FALSE, <<221001, 12001, 1001>>, <<0, 0, 0, 0, 1, 0, 1>>)
      \* the optional section 2 (three local octets): metadata-only decoding then sees as many sections as a full decode
      \* of a message without it
      [] k = 6 -> Message(3, Ident0, <<<<170, 85, 66>>>>, 1, TRUE, FALSE, <<2001>>, <<1, 0>>)
PoolEdition(k) == CASE k = 1 -> 4 [] k = 2 -> 3 [] k = 3 -> 4 [] k = 4 -> 2 [] k = 5 -> 4 [] k = 6 -> 3 [] k >= 100 -> 4

(* the length sweep: segment index 100 + y is an edition 4 message carrying y filler octets in two 205YYY
   character fields, so its total length is 49 + y: what a scanner reads from the header of a message -
   in particular the three length octets - takes every value of the low octet (and 0, 1, 2 in the middle
   one) as y runs through 2..510 *)
SweepMsg(y) == LET y1 == IF y > 255 THEN 255 ELSE y - 1
                   y2 == y - y1
               IN Message(4, Ident0, <<>>, 1, TRUE, FALSE, <<205000 + y1, 205000 + y2>>, OctetsToBits([i \in 1..y |-> 32 + (i % 64)]))
ASSUME TLCSet(22, [y \in SweepLo..SweepHi |-> SweepMsg(y)])

Sep(k) ==
    CASE k = 1 -> <<>>
      [] k = 2 -> <<1, 13, 13, 10, 48, 48, 49, 13, 13, 10, 73, 85, 83, 90, 52, 50, 32, 13, 13, 10>>    \* bulletin heading
      [] k = 3 -> <<0, 255, 66, 85, 70, 7, 55, 55, 55>>                                              \* noise with BUF and 777
      [] k = 4 -> <<66, 85, 70>>                                                                     \* partial signature right before
      [] k = 5 -> <<55, 55, 55, 55, 13, 10>>                                                          \* a stray end signature

(* ---- damage -------------------------------------------------------------------- *)
Patch(m, at, os) == SubSeq(m, 1, at) \o os \o SubSeq(m, at + Len(os) + 1, Len(m))     \* at: 0-based offset
Damage(m, f) ==
    LET h == ParseHeader(m) IN
    CASE f = "none" -> m
      [] f = "stop" -> Patch(m, Len(m) - 1, <<56>>)                            \* 7778
      [] f = "stopff" -> Patch(m, Len(m) - 4, <<255, 255, 255, 255>>)          \* four octets that are no text in any encoding
      [] f = "undef_elem" -> Patch(m, h.s3 + 7, <<63, 250>>)                   \* 0 63 250
      [] f = "undef_elem2" -> Patch(m, h.s3 + 9, <<63, 250>>)                  \* the second descriptor (pool message 5 only)
      [] f = "undef_seq" -> Patch(m, h.s3 + 7, <<192 + 63, 250>>)              \* 3 63 250
      [] f = "shrink1" -> Patch(m, h.s1, U(h.l1 - 1, 3))
      [] f = "grow1" -> Patch(m, h.s1, U(h.l1 + 1, 3))
      [] f = "shrink3" -> Patch(m, h.s3, U(h.l3 - 1, 3))
      [] f = "grow3" -> Patch(m, h.s3, U(h.l3 + 1, 3))
      [] f = "shrink4" -> Patch(m, h.s4, U(h.l4 - 1, 3))
      [] f = "grow4" -> Patch(m, h.s4, U(h.l4 + 1, 3))

(* computed once (see the note in Tables.tla on constant definitions) *)
ASSUME TLCSet(21, [k \in 1..6 |-> [f \in FaultKinds \cup {"none"} |-> Damage(PoolMsg(k), f)]])
Octets(k, f) == TLCGet(21)[k][f]

VARIABLES layout,     \* sequence of [kind: "sep" | "msg", k, fault]
          stream,     \* the octets of the whole stream (fixed by layout)
          starts,     \* 0-based offset of every segment (fixed by layout)
          mode,       \* [info, cont, filt]
          cur,        \* scanner cursor (0-based offset)
          found,      \* offset of the signature found, -1 none yet in this iteration
          yielded,    \* sequence of [at, len]
          status,     \* "scan" | "done" | "raised"
          hist        \* history: one record per completed iteration [at, next, act] (what the hooks of the code log)
vars == <<layout, stream, starts, mode, cur, found, yielded, status, hist>>

SegOctets(sg) == IF sg.kind = "sep" THEN Sep(sg.k)
                 ELSE IF sg.k >= 100 THEN TLCGet(22)[sg.k - 100]
                 ELSE IF sg.fault = "cut" THEN SubSeq(Octets(sg.k, "none"), 1, sg.cut)
                 ELSE Octets(sg.k, sg.fault)
RECURSIVE Cat(_, _)
Cat(l, i) == IF i > Len(l) THEN <<>> ELSE SegOctets(l[i]) \o Cat(l, i + 1)
S == stream
RECURSIVE StartOfR(_, _)
StartOfR(l, i) == IF i <= 1 THEN 0 ELSE StartOfR(l, i - 1) + Len(SegOctets(l[i - 1]))
StartOf(l, i) == starts[i]
MsgSegs == {i \in 1..Len(layout) : layout[i].kind = "msg"}
SegAt(c) == IF \E i \in MsgSegs : StartOf(layout, i) = c THEN CHOOSE i \in MsgSegs : StartOf(layout, i) = c ELSE 0

(* ---- what decoding at offset c gives --------------------------------------------- *)
Sec1Size(e) == IF e = 4 THEN 22 ELSE 18
(* metadata-only decoding: sections 0-3 are read within their declared lengths, the declared extent of
   section 4 is skipped; nothing else is looked at *)
InfoOK(s, c) ==
    /\ c + 8 <= Len(s) /\ SubSeq(s, c + 1, c + 4) = BUFR
    /\ LET e == s[c + 8] IN
       /\ e \in {2, 3, 4}
       /\ c + 8 + Sec1Size(e) <= Len(s)
       /\ LET s1 == c + 8
              l1 == U3(s, s1)
              has2 == (IF e = 4 THEN s[s1 + 10] ELSE s[s1 + 8]) >= 128
          IN /\ l1 >= Sec1Size(e) /\ s1 + l1 + 3 <= Len(s)
             /\ LET s2 == s1 + l1
                    l2 == IF has2 THEN U3(s, s2) ELSE 0
                IN /\ (has2 => l2 >= 4)
                   /\ s2 + l2 + 7 <= Len(s)
                   /\ LET s3 == s2 + l2
                          l3 == U3(s, s3)
                      IN /\ l3 >= 7 /\ s3 + l3 + 4 <= Len(s)
                         /\ LET s4 == s3 + l3
                                l4 == U3(s, s4)
                            IN l4 >= 4 /\ s4 + l4 <= Len(s)
InfoExtent(s, c) ==       \* offset just after section 4 as declared (valid when InfoOK)
    LET h == ParseHeader(SubSeq(s, c + 1, Len(s))) IN h.s4 + h.l4
DeclaredTotal(s, c) == U3(s, c + 4)

(* what full decoding can see of a fault: with ive a damaged stop signature passes (its four octets are read,
   not compared) - every other fault is found as before *)
Visible(f) == f # "none" /\ ~(mode.ive /\ f \in {"stop", "stopff"})
FullOK(c) == LET i == SegAt(c) IN i # 0 /\ ~Visible(layout[i].fault)
Edition(c) == S[c + 8]
(* the filter expressions used: ${%edition} == 4, or ${%data_i18n_subcategory} == 0 - a parameter that only
   edition 4 has (0 in every pool message), so the answer for the other editions is "no such parameter" *)
FilterTrue(c) == Edition(c) = 4

FindFrom(c) == IF \E i \in c..(Len(S) - 4) : SubSeq(S, i + 1, i + 4) = BUFR
               THEN CHOOSE i \in c..(Len(S) - 4) : SubSeq(S, i + 1, i + 4) = BUFR /\ \A j \in c..(i - 1) : SubSeq(S, j + 1, j + 4) # BUFR
               ELSE -1

(* ---- the space of streams --------------------------------------------------------- *)
SepSeg(k) == [kind |-> "sep", k |-> k, fault |-> "none", cut |-> 0]
MsgSeg(k, f) == [kind |-> "msg", k |-> k, fault |-> f, cut |-> 0]
CutLayouts == UNION {{<<SepSeg(1), [kind |-> "msg", k |-> k, fault |-> "cut", cut |-> p], SepSeg(1)>> :
                        p \in 4..(Len(Octets(k, "none")) - 1)} : k \in PoolIdx}   \* shorter prefixes do not even contain the signature
RECURSIVE Layouts(_)
Layouts(n) ==      \* sep msg sep msg ... sep
    IF n = 0 THEN {<<SepSeg(k)>> : k \in SepIdx}
    ELSE {l \o <<MsgSeg(k, f), SepSeg(q)>> : l \in Layouts(n - 1), k \in PoolIdx, f \in Faults \cup {"none"}, q \in SepIdx}
Uniform(l) == \A i, j \in 1..Len(l) : (l[i].kind = "sep" /\ l[j].kind = "sep") => l[i].k = l[j].k
(* a message whose payload contains start signatures is not combined with damage that makes the
   metadata-only scanner re-scan its interior (what it would find there is not a message) *)
Sane(l) == \A i \in 1..Len(l) :
    /\ (l[i].kind = "msg" /\ l[i].k = 2) => l[i].fault \in {"none", "stop", "stopff", "undef_elem", "undef_seq"}
    /\ (l[i].kind = "msg" /\ l[i].fault = "undef_elem2") => l[i].k = 5

RECURSIVE SweepFrom(_, _)
SweepFrom(y, stop) == IF y > stop THEN <<>> ELSE <<MsgSeg(100 + y, "none"), SepSeg(IF y % 3 = 0 THEN 2 ELSE 1)>> \o SweepFrom(y + 1, stop)
SweepLayouts == {<<SepSeg(2)>> \o SweepFrom(a, IF a + SweepChunk - 1 > SweepHi THEN SweepHi ELSE a + SweepChunk - 1) :
                    a \in {y \in SweepLo..SweepHi : (y - SweepLo) % SweepChunk = 0}}

Init ==
    /\ \/ \E n \in 0..MaxMsgs : layout \in {l \in Layouts(n) : Sane(l) /\ (UniformSeps => Uniform(l))}
       \/ WithCuts /\ layout \in CutLayouts
       \/ layout \in SweepLayouts
    /\ stream = Cat(layout, 1)
    /\ starts = [i \in 1..Len(layout) |-> StartOfR(layout, i)]
    /\ mode \in Modes
    \* truncated messages are scanned with full decoding only (metadata-only scanning does not look
    \* beyond section 4 by design, see C17)
    /\ (\E i \in 1..Len(layout) : layout[i].fault = "cut") => (~mode.info /\ ~mode.filt)
    /\ cur = 0 /\ found = -1 /\ yielded = <<>> /\ status = "scan" /\ hist = <<>>

(* ---- the scanner -------------------------------------------------------------------- *)
Find ==
    /\ status = "scan" /\ found = -1 /\ cur < Len(S) /\ FindFrom(cur) # -1
    /\ found' = FindFrom(cur)
    /\ UNCHANGED <<layout, stream, starts, mode, cur, yielded, status, hist>>

Stop ==
    /\ status = "scan" /\ found = -1 /\ (cur >= Len(S) \/ FindFrom(cur) = -1)
    /\ status' = "done"
    /\ UNCHANGED <<layout, stream, starts, mode, cur, found, yielded, hist>>

At == found
(* with a filter the metadata are always decoded first *)
FirstOK == IF mode.filt \/ mode.info THEN InfoOK(S, At) ELSE FullOK(At)
Matched == ~mode.filt \/ FilterTrue(At)
SecondOK == (mode.filt /\ ~mode.info) => FullOK(At)       \* a matching message is then decoded in full
DecodeOK == FirstOK /\ (Matched => SecondOK)

YieldDecoded ==
    /\ status = "scan" /\ found # -1 /\ DecodeOK /\ Matched
    /\ LET n == IF mode.info THEN DeclaredTotal(S, At) ELSE Len(SegOctets(layout[SegAt(At)])) IN
       /\ yielded' = Append(yielded, [at |-> At, len |-> n])
       /\ cur' = At + n
       /\ hist' = Append(hist, [at |-> At, next |-> At + n, act |-> "yield"])
    /\ found' = -1
    /\ UNCHANGED <<layout, stream, starts, mode, status>>

FilterOut ==
    /\ status = "scan" /\ found # -1 /\ DecodeOK /\ ~Matched
    /\ cur' = At + (IF mode.info THEN DeclaredTotal(S, At) ELSE InfoExtent(S, At))
    /\ hist' = Append(hist, [at |-> At, next |-> cur', act |-> "filtered"])
    /\ found' = -1
    /\ UNCHANGED <<layout, stream, starts, mode, yielded, status>>

Raise ==
    /\ status = "scan" /\ found # -1 /\ ~DecodeOK /\ ~mode.cont
    /\ status' = "raised"
    /\ hist' = Append(hist, [at |-> At, next |-> -1, act |-> "raise"])
    /\ UNCHANGED <<layout, stream, starts, mode, cur, found, yielded>>

SkipByDeclared ==
    /\ status = "scan" /\ found # -1 /\ ~DecodeOK /\ mode.cont /\ ~mode.info /\ InfoOK(S, At)
    /\ cur' = At + DeclaredTotal(S, At) /\ found' = -1
    /\ hist' = Append(hist, [at |-> At, next |-> cur', act |-> "skip"])
    /\ UNCHANGED <<layout, stream, starts, mode, yielded, status>>

SkipByOne ==
    /\ status = "scan" /\ found # -1 /\ ~DecodeOK /\ mode.cont /\ (mode.info \/ ~InfoOK(S, At))
    /\ cur' = At + 1 /\ found' = -1
    /\ hist' = Append(hist, [at |-> At, next |-> cur', act |-> "skip"])
    /\ UNCHANGED <<layout, stream, starts, mode, yielded, status>>

Next == Find \/ Stop \/ YieldDecoded \/ FilterOut \/ Raise \/ SkipByDeclared \/ SkipByOne

Finished == status \in {"done", "raised"}

(* ---- properties ------------------------------------------------------------------------ *)
(* is message segment i delivered in this mode if scanning gets to it? *)
Detectable(i) == IF mode.info THEN ~InfoOK(S, StartOf(layout, i)) ELSE Visible(layout[i].fault)
Wanted(i) == ~Detectable(i) /\ (mode.filt => PoolEdition(layout[i].k) = 4)
RECURSIVE OrderedMsgSegs(_)
OrderedMsgSegs(i) == IF i > Len(layout) THEN <<>>
                     ELSE (IF layout[i].kind = "msg" THEN <<i>> ELSE <<>>) \o OrderedMsgSegs(i + 1)
Expected(segs) == SelectSeq(segs, Wanted)
YieldOf(i) == [at |-> StartOf(layout, i), len |-> Len(SegOctets(layout[i]))]

NoFaults == \A i \in MsgSegs : layout[i].fault = "none"
(* with ive the stop signature is the only thing that is waived *)
IveWaivesOnlyStop == (mode.ive /\ status = "done" /\ ~mode.info) =>
    \A i \in MsgSegs : (layout[i].fault \notin {"none", "stop", "stopff"}) => \A j \in 1..Len(yielded) : yielded[j].at # StartOf(layout, i)
(* C11: without damage the stream yields exactly its (matching) messages with their exact bytes *)
YieldsExactlyMessages ==
    (status = "done" /\ NoFaults) =>
        LET e == Expected(OrderedMsgSegs(1)) IN yielded = [j \in 1..Len(e) |-> YieldOf(e[j])]
NeverRaisesOnValid == NoFaults => status # "raised"
(* a start signature inside a message body never begins a delivered message *)
DecoyNeverStartsMessage ==
    \A j \in 1..Len(yielded) : \E i \in MsgSegs : StartOf(layout, i) = yielded[j].at
(* C12: with continue-on-error only the detectably damaged messages are missing *)
ContinueSkipsOnlyDamaged ==
    (status = "done" /\ mode.cont) =>
        LET e == Expected(OrderedMsgSegs(1)) IN yielded = [j \in 1..Len(e) |-> YieldOf(e[j])]
(* C12: without continue-on-error everything before the first detectably damaged message is delivered *)
FirstBad == IF \E i \in MsgSegs : Detectable(i) /\ (~mode.filt \/ mode.info \/ PoolEdition(layout[i].k) = 4 \/ ~InfoOK(S, StartOf(layout, i)))
            THEN CHOOSE i \in MsgSegs : /\ Detectable(i) /\ (~mode.filt \/ mode.info \/ PoolEdition(layout[i].k) = 4 \/ ~InfoOK(S, StartOf(layout, i)))
                                        /\ \A j \in MsgSegs : (j < i) => ~(Detectable(j) /\ (~mode.filt \/ mode.info \/ PoolEdition(layout[j].k) = 4 \/ ~InfoOK(S, StartOf(layout, j))))
            ELSE 0
NoContinueDeliversPrefixThenError ==
    (Finished /\ ~mode.cont) =>
        IF FirstBad = 0 THEN status = "done"
        ELSE /\ status = "raised"
             /\ LET e == Expected(SelectSeq(OrderedMsgSegs(1), LAMBDA i : i < FirstBad)) IN yielded = [j \in 1..Len(e) |-> YieldOf(e[j])]
(* the pieces written out and concatenated are the messages *)
YieldedSpansAreDisjointAndOrdered ==
    \A j \in 1..(Len(yielded) - 1) : yielded[j].at + yielded[j].len <= yielded[j + 1].at

(* C12: no proper prefix of a message decodes in full *)
NoPrefixDecodes ==
    (\E i \in MsgSegs : layout[i].fault = "cut") /\ ~mode.info /\ ~mode.filt => yielded = <<>>

Case == [layout |-> layout, mode |-> mode, stream |-> S, yielded |-> yielded, status |-> status, hist |-> hist,
         faults |-> {layout[i].fault : i \in MsgSegs}]
Emit == Finished => PrintT(ToJson(Case))
=============================================================================
