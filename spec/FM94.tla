------------------------------- MODULE FM94 -------------------------------
(***************************************************************************)
(* The FM-94 BUFR data section as a state machine: a template (flat        *)
(* program, see Tables) is walked once per subset (uncompressed) or once   *)
(* for all subsets (compressed); every primitive field is one action.      *)
(*                                                                         *)
(* Two forms share every action:                                           *)
(*   produce : field contents are CHOSEN (value classes rotating over      *)
(*             positions; replication factors and bitmap bits chosen       *)
(*             nondeterministically) and appended to `bits`                *)
(*   consume : field contents are READ from the octets `Oct` at `pos`      *)
(*                                                                         *)
(* Deliberate pybufrkit choices where FM-94 is silent are named:           *)
(*   AssocNestedAsSum         nested 204 = one field of the summed width   *)
(*   DnpCountsMembers         221 counts every member visited              *)
(*   BackRefIncludesClass31   the back-reference window counts every plain *)
(*                            element descriptor, class 31 included        *)
(*   StringMissingIsAllOnes   a character field of all-ones octets is      *)
(*                            "missing"                                    *)
(* 201/202/207 are NOT applied to class 31 here (FM-94); templates that    *)
(* put a class-31 numeric inside such a bracket are outside WF.            *)
(***************************************************************************)
EXTENDS Tables, Wide, Framing, Column, FiniteSets

CONSTANTS
    Cases,          \* produce: sequence of [ids |-> descriptor list]
                    \* consume: sequence of [msg |-> octets of a whole message, ...]; header parsed by Framing
    Editions,       \* subset of {2, 3, 4}
    Compressions,   \* subset of BOOLEAN
    SubsetCounts,   \* set of subset counts
    Fmax,           \* largest delayed replication factor chosen in produce form
    Seeds,          \* value-class seeds
    Slack,          \* compressed columns are written with dmin .. dmin+Slack difference bits
    ValueMode,      \* produce: "classes" (value classes rotating over positions) | "all" (every content of every field)
    Mode,           \* "produce" | "consume"
    ResetPolicy,    \* "fm94": every register is re-initialised at each subset
                    \* "leaky": only what pybufrkit's switch_subset_context used to reset (new reference values)
    NulStrings,     \* TRUE: the "blank" string class is all NUL octets instead (character data outside IA5 text; a
                    \* compressed column of them has an all-zero minimum, which pybufrkit returns as the empty string)
    NestedAssoc     \* TRUE: a 204YYY while another is in force is walked with pybufrkit's reading (AssocNestedAsSum) instead of
                    \* ending the behaviour as OutsideWF - used where the property is about the agreement of two views of the
                    \* same decoded data (C07 / C09: flat data and hierarchical view), not about what FM-94 assigns

VARIABLES
    tid, ed, cmp, nsub, seed,   \* chosen in Init
    sub,        \* subset being walked (uncompressed), 1 when compressed
    pc,         \* index of the next instruction, Len(P)+1 when the subset is complete
    frames,     \* replication stack: [start, end, left]
    phase,      \* "pre": member not yet touched; "main": its associated field has been processed
    reg,        \* operator registers (record, see R0)
    out,        \* outputs of the current subset (compressed: of all subsets)
    done,       \* outputs of completed subsets (uncompressed)
    bits,       \* produce: data bits so far;  consume: <<>>
    pos,        \* bit cursor into the data
    err         \* "" or an error class (terminal)

vars == <<tid, ed, cmp, nsub, seed, sub, pc, frames, phase, reg, out, done, bits, pos, err>>

(* consume form: everything about a case is read from the message octets themselves *)
(* computed once at start-up and kept in TLC registers (see the note in Tables); even the constant
   Cases is re-evaluated at every mention when it is given by a definition in the model module *)
ASSUME TLCSet(10, Cases)
CasesR == TLCGet(10)
NCases == Len(CasesR)
ASSUME TLCSet(13, IF Mode = "consume" THEN [i \in 1..NCases |-> ParseHeader(CasesR[i].msg)] ELSE <<>>)
Hdrs == TLCGet(13)
ASSUME TLCSet(14, [i \in 1..NCases |-> IF Mode = "consume" THEN Hdrs[i].ids ELSE CasesR[i].ids])
Templates == TLCGet(14)
ASSUME TLCSet(16, IF Mode = "consume" THEN [i \in 1..NCases |-> CasesR[i].msg] ELSE <<>>)
Oct == TLCGet(16)[tid]
DataBit0 == 8 * Hdrs[tid].data0          \* bit offset of the first data bit inside the message

ASSUME TLCSet(15, [t \in 1..Len(Templates) |-> Build(Templates[t])])
Prog == TLCGet(15)
P == Prog[tid]
Ins == P[pc]
AtEnd == pc > Len(P)

R0 == [dw |-> 0, ds |-> 0, rvw |-> 0, newref |-> <<>>, assoc |-> <<>>, skipw |-> 0, bsrY |-> 0,
       strw |-> 0, dnp |-> 0, qa |-> "NA", bmst |-> "NA", n31 |-> 0, reuse |-> FALSE,
       sel |-> <<>>, selpos |-> 1, brb |-> 0, backref |-> <<>>, bmbits |-> <<>>,
       m31021 |-> 0, w8023 |-> FALSE, m8023 |-> 0, w8024 |-> FALSE, m8024 |-> 0]

NSubCols == IF cmp THEN nsub ELSE 1        \* values carried by one output entry

(* ---- labels -------------------------------------------------------------- *)
Lab5(prefix, id) == IF id < 100000 THEN prefix \o SubSeq(IdStr(id), 2, 6) ELSE prefix \o ToString(id)
MarkerPrefix(opid) == CASE opid = 223255 -> "T" [] opid = 224255 -> "F" [] opid = 225255 -> "D" [] opid = 232255 -> "R"

(* ---- 207: width increment ((10*Y+2) div 3), scale +Y, reference * 10^Y --- *)
W207(y) == IF y = 0 THEN 0 ELSE (10 * y + 2) \div 3

(***************************************************************************)
(* Field contents                                                          *)
(***************************************************************************)
(* Value classes rotate over the output positions; how the subsets of one position relate rotates too:
     position % 4 = 0   all subsets carry the same class (possibly all missing)
                  1   consecutive classes (all different)
                  2   one class in some subsets, missing in the others ("equal except where missing")
                  3   classes two apart
   so that compressed columns of every kind - all equal, all missing, equal-with-missing, different,
   different-with-missing - occur in every template of four or more fields *)
ClsOf(idx, s, n) ==
    LET b == idx + seed IN
    CASE idx % 4 = 0 -> b % n
      [] idx % 4 = 1 -> (b + (s - 1)) % n
      [] idx % 4 = 2 -> IF (s + seed) % 2 = 0 THEN 4 ELSE (LET c == b % (n - 1) IN IF c >= 4 THEN c + 1 ELSE c)
      [] OTHER -> (b + 2 * (s - 1)) % n
Cls(idx, s) == ClsOf(idx, s, 5)

StrOctet(c, i) ==
    CASE c = 0 -> IF NulStrings THEN 0 ELSE 32
      [] c = 1 -> 65 + ((i - 1) % 26)
      [] c = 2 -> <<39, 34, 92, 32, 120>>[((i - 1) % 5) + 1]
      [] c = 3 -> <<233, 65, 32, 252>>[((i - 1) % 4) + 1]
      [] c = 4 -> 255
      [] c = 5 -> IF i <= 2 THEN <<86, 72>>[i] ELSE 32                      \* "VH" then blanks
      [] c = 6 -> IF i = 1 THEN 32 ELSE IF i <= 3 THEN <<86, 72>>[i - 1] ELSE 32   \* the same text one place to the right
(* classes 5 and 6 are the same text at different offsets (equal once blanks are stripped on both sides, different
   as field contents); fields shorter than three octets take the lettered class instead *)
StrPattern(c, nbytes) == OctetsToBits([i \in 1..nbytes |-> StrOctet(IF c >= 5 /\ nbytes < 3 THEN 1 ELSE c, i)])

(* the pattern chosen for subset s at output position idx.  w0 is the width the element has in Table B: a
   field that an operator has WIDENED (w0 < w) takes a sixth class, the all-ones pattern of the table width -
   a value that is not missing in the field as it stands *)
Cls6(idx, s) == ClsOf(idx, s, 6)
(* numeric fields of 54 bits and more: the third class is 2^(w-2) + 1 instead of 2^(w-1) - a value beyond 2^53 with its
   lowest bit set, which no detour through a double survives, and one that still leaves a compressed column next to
   0 or 1 encodable (a range of 2^63 and more has no difference width) *)
NumPattern(c, w) == IF c = 2 /\ w >= 54 THEN <<0, 1>> \o Zeros(w - 3) \o <<1>> ELSE ClassPattern(c, w)
Pattern(t, w, idx, s, w0) ==
    IF t = "str" THEN StrPattern(ClsOf(idx, s, 7), w \div 8)
    ELSE IF t = "ref"
         THEN LET c == Cls(idx, 1) IN ClassPattern(IF c = 2 THEN 1 ELSE c, w)   \* no negative zero; same for all subsets
    ELSE IF t = "num" /\ w0 >= 1 /\ w0 < w
         THEN LET c == Cls6(idx, s) IN IF c = 5 THEN Zeros(w - w0) \o Ones(w0) ELSE NumPattern(c, w)
    ELSE IF t = "num" THEN NumPattern(Cls(idx, s), w)
    ELSE ClassPattern(Cls(idx, s), w)

(* "all" value mode: every bit pattern of a numeric / code field (use small widths), and for
   character fields the all-space, lettered and all-ones (missing) contents *)
AllPatterns(t, w) == IF t = "str" THEN {StrPattern(c, w \div 8) : c \in {0, 1, 4}}
                     ELSE {UintBits(v, w) : v \in 0..(2 ^ w - 1)}

(* is this content "missing"?  Only fields wider than one bit can be. *)
IsMissing(t, w, raw) == t \in {"num", "code", "str"} /\ w > 1 /\ IsAllOnes(raw)

Val(t, w, raw) == [miss |-> IsMissing(t, w, raw), raw |-> raw]

(* ---- compressed columns: see Column.tla; here the bit source is the message octets ---------- *)
SrcBits(p, n) == BitsAt(Oct, DataBit0 + p, n)
NumColumnD(vs) == {d \in LegalWidths(vs, Slack) : TRUE}
ReadNumColumn(t, w, p, codeRecheck) == RdNumColumn(SrcBits, nsub, t, w, p, codeRecheck)
ReadStrColumn(w, p) == RdStrColumn(SrcBits, nsub, w, p)

(***************************************************************************)
(* One field: the set of possible [vs, fb, n, ok] for type t, width w.     *)
(* forced = <<>> or the pattern every subset must carry (factors, bitmap   *)
(* bits, reference definitions, which must be equal in compressed data).   *)
(***************************************************************************)
FieldW(t, w, forced, w0) ==
    IF Mode = "produce" THEN
        LET idx == Len(out) + 1
            rotating == [i \in 1..NSubCols |->
                           LET raw == IF forced # <<>> THEN forced
                                      ELSE Pattern(t, w, idx, IF cmp THEN i ELSE sub, w0) IN Val(t, w, raw)]
            columns == IF ValueMode = "all" /\ forced = <<>> /\ t \in {"num", "code", "str"}
                       THEN [1..NSubCols -> {Val(t, w, r) : r \in AllPatterns(t, w)}]
                       ELSE {rotating}
            results(vs) ==
                IF ~cmp THEN {[vs |-> vs, fb |-> vs[1].raw, n |-> w, ok |-> TRUE, d |-> -1]}
                ELSE IF t = "str" THEN {[vs |-> vs, fb |-> StrColumnBits(w, vs), n |-> Len(StrColumnBits(w, vs)), ok |-> TRUE,
                                         d |-> IF AllMissing(vs) \/ AllEqual(vs) THEN 0 ELSE w \div 8]}
                ELSE {[vs |-> vs, fb |-> NumColumnBits(w, vs, d), n |-> Len(NumColumnBits(w, vs, d)), ok |-> TRUE, d |-> d] : d \in NumColumnD(vs)}
        IN UNION {results(vs) : vs \in columns}
    ELSE
        LET avail(n) == DataBit0 + pos + n <= 8 * Len(Oct)
            short == {[vs |-> [i \in 1..NSubCols |-> [miss |-> TRUE, raw |-> <<>>]], fb |-> <<>>, n |-> 0, ok |-> FALSE, d |-> -1]}
        IN
        IF ~cmp THEN (IF ~avail(w) THEN short
                      ELSE LET raw == BitsAt(Oct, DataBit0 + pos, w) IN {[vs |-> <<Val(t, w, raw)>>, fb |-> <<>>, n |-> w, ok |-> TRUE, d |-> -1]})
        ELSE IF ~avail(w + 6) THEN short
        ELSE LET dd == BitsToNat(BitsAt(Oct, DataBit0 + pos + w, 6))
                 mnMiss == t \notin {"str", "ref"} /\ w > 1 /\ IsAllOnes(BitsAt(Oct, DataBit0 + pos, w))
                 total == w + 6 + (IF mnMiss THEN 0 ELSE nsub * dd * (IF t = "str" THEN 8 ELSE 1))
             IN IF ~avail(total) THEN short
                ELSE IF t = "str" THEN LET c == ReadStrColumn(w, pos) IN {[vs |-> c.vs, fb |-> <<>>, n |-> c.n, ok |-> c.ok, d |-> c.d]}
                ELSE LET c == ReadNumColumn(t, w, pos, t = "code") IN {[vs |-> c.vs, fb |-> <<>>, n |-> c.n, ok |-> c.ok, d |-> c.d]}

Field(t, w, forced) == FieldW(t, w, forced, w)

Entry(lab, t, w, sc, ref, link, plain, vs) ==
    [lab |-> lab, t |-> t, w |-> w, sc |-> sc, ref |-> ref, link |-> link, plain |-> plain, v |-> vs, d |-> -1, p |-> pos, mean |-> 0, at |-> pc]

(***************************************************************************)
(* Control: moving to the next instruction, closing replication frames     *)
(***************************************************************************)
RECURSIVE Unwind(_, _)
Unwind(fr, p) ==
    IF fr = <<>> THEN [pc |-> p, fr |-> fr]
    ELSE LET top == fr[Len(fr)] IN
         IF p # top.end THEN [pc |-> p, fr |-> fr]
         ELSE IF top.left > 1 THEN [pc |-> top.start, fr |-> [fr EXCEPT ![Len(fr)].left = top.left - 1]]
         ELSE Unwind(SubSeq(fr, 1, Len(fr) - 1), p)

GoTo(p) == LET u == Unwind(frames, p) IN pc' = u.pc /\ frames' = u.fr /\ phase' = "pre"
GoToWith(fr, p) == LET u == Unwind(fr, p) IN pc' = u.pc /\ frames' = u.fr /\ phase' = "pre"

(***************************************************************************)
(* The bitmap-definition automaton (process_bitmap_definition)             *)
(***************************************************************************)
BitOfEntry(e) == IF e.v[1].raw = <<1>> THEN 1 ELSE 0

(* indices of the plain element outputs before the boundary, oldest first *)
PlainBefore(o, brb) == SelectSeq([i \in 1..brb |-> i], LAMBDA i : o[i].plain)

DefineBitmap(r, o) ==
    LET n == r.n31
        bm == [i \in 1..n |-> BitOfEntry(o[Len(o) - n + i])]
        cand == PlainBefore(o, r.brb)
        window == IF r.backref # <<>> THEN r.backref
                  ELSE IF Len(cand) >= n THEN SubSeq(cand, Len(cand) - n + 1, Len(cand)) ELSE cand
        ok == Len(window) = n
        sel == SelectSeq([i \in 1..Len(window) |-> IF i <= n /\ bm[i] = 0 THEN window[i] ELSE 0], LAMBDA x : x # 0)
    IN [r EXCEPT !.backref = window, !.sel = sel, !.selpos = 1, !.bmbits = bm, !.bmst = IF ok THEN "NA" ELSE "ERR"]

BmStep(r, id, o) ==
    CASE r.bmst = "INDICATOR" ->
            IF id = 236000 THEN [r EXCEPT !.reuse = TRUE, !.bmst = "WAITING", !.n31 = 0]
            ELSE IF id = 237000 THEN [r EXCEPT !.bmst = "NA"]
            ELSE [r EXCEPT !.reuse = FALSE, !.bmst = "WAITING", !.n31 = 0]
      [] r.bmst = "WAITING" -> IF id = 31031 THEN [r EXCEPT !.bmst = "COUNTING", !.n31 = 1] ELSE r
      [] r.bmst = "COUNTING" -> IF id = 31031 THEN [r EXCEPT !.n31 = @ + 1] ELSE DefineBitmap(r, o)
      [] OTHER -> r

(* registers after the per-member preliminaries (221 countdown, bitmap automaton) *)
Dnp(r) == IF r.dnp > 0 THEN [r EXCEPT !.dnp = @ - 1] ELSE r
IsDropped(r, ins) == r.dnp > 0 /\ ins.k = "E" /\ ~(XX(ins.id) \in 1..9 \/ XX(ins.id) = 31)
Pre(r, ins, o) == IF phase = "main" THEN r ELSE BmStep(Dnp(r), ins.id, o)

Running == err = "" /\ ~AtEnd
Member == Running /\ Ins.k # "F"

(***************************************************************************)
(* Actions                                                                 *)
(***************************************************************************)
Fail(e) == /\ err' = e /\ UNCHANGED <<tid, ed, cmp, nsub, seed, sub, pc, frames, phase, reg, out, done, bits, pos>>

PutField(e, f, r, nextpc) ==
    IF ~f.ok THEN Fail("MalformedData")
    ELSE
    /\ out' = Append(out, [e EXCEPT !.d = f.d, !.p = pos + f.n])
    /\ bits' = IF Mode = "produce" THEN bits \o f.fb ELSE bits
    /\ pos' = pos + f.n
    /\ reg' = r
    /\ GoTo(nextpc)
    /\ UNCHANGED <<tid, ed, cmp, nsub, seed, sub, done, err>>

(* 221: the element is not present in the data at all *)
DnpDrop ==
    /\ Member /\ phase = "pre" /\ IsDropped(reg, Ins)
    /\ reg' = Dnp(reg)
    /\ GoTo(pc + 1)
    /\ UNCHANGED <<tid, ed, cmp, nsub, seed, sub, out, done, bits, pos, err>>

NotDropped == ~IsDropped(reg, Ins)

(* 203YYY in force: the element carries a new reference value (sign + magnitude) *)
DefRefval ==
    /\ Member /\ phase = "pre" /\ NotDropped /\ Ins.k = "E" /\ reg.rvw > 0
    /\ IF ~InB(Ins.id) THEN Fail("UnknownDescriptor")
       ELSE IF Kind(Ins.id) = "str" THEN Fail("PyBufrKitError")
       ELSE \E f \in Field("ref", reg.rvw, <<>>) :
            LET r1 == Dnp(reg)
                nv == FromSignMagnitude(f.vs[1].raw)
                r2 == [r1 EXCEPT !.newref = (Ins.id :> nv) @@ @]
            IN PutField(Entry(IdStr(Ins.id), "ref", reg.rvw, 0, WZero, 0, TRUE, f.vs), f, r2, pc + 1)

(* 206YYY: the next descriptor is a local one of YYY bits *)
SkipLocal ==
    /\ Member /\ phase = "pre" /\ NotDropped /\ ~(Ins.k = "E" /\ reg.rvw > 0) /\ reg.skipw > 0
    /\ \E f \in Field("code", reg.skipw, <<>>) :
         PutField(Entry(Lab5("S", Ins.id), "code", reg.skipw, 0, WZero, 0, FALSE, f.vs), f,
                  [Dnp(reg) EXCEPT !.skipw = 0], pc + 1 + Ins.span + (IF Ins.k = "D" THEN 1 ELSE 0))

Normal == Member /\ NotDropped /\ ~(Ins.k = "E" /\ reg.rvw > 0) /\ reg.skipw = 0

AssocWidth(r) == LET RECURSIVE S(_) S(i) == IF i > Len(r.assoc) THEN 0 ELSE r.assoc[i] + S(i + 1) IN S(1)

(* 204YYY in force: the associated field precedes its element (AssocNestedAsSum) *)
Assoc ==
    /\ Normal /\ phase = "pre" /\ Ins.k = "E" /\ reg.assoc # <<>> /\ XX(Ins.id) # 31
    /\ LET r1 == Pre(reg, Ins, out) IN
       IF r1.bmst = "ERR" THEN Fail("PyBufrKitError")
       ELSE \E f \in Field("code", AssocWidth(reg), <<>>) :
            IF ~f.ok THEN Fail("MalformedData") ELSE
            /\ out' = Append(out, [Entry(Lab5("A", Ins.id), "code", AssocWidth(reg), 0, WZero, 0, FALSE, f.vs)
                                      EXCEPT !.d = f.d, !.p = pos + f.n, !.mean = reg.m31021])
            /\ bits' = IF Mode = "produce" THEN bits \o f.fb ELSE bits
            /\ pos' = pos + f.n
            /\ reg' = r1
            /\ phase' = "main"
            /\ UNCHANGED <<tid, ed, cmp, nsub, seed, sub, pc, frames, done, err>>

(* effective parameters of an element under the registers r *)
EffW(r, id, w)  == IF XX(id) = 31 THEN w ELSE w + r.dw + W207(r.bsrY)
EffSc(r, id, s) == IF XX(id) = 31 THEN s ELSE s + r.ds + r.bsrY
EffRef(r, id, base) ==
    LET b == IF id \in DOMAIN r.newref THEN r.newref[id] ELSE base IN
    IF XX(id) = 31 THEN b ELSE WMulPow10(b, r.bsrY)

(* quality information after 222000: class 33 elements are linked through the bitmap *)
QaStep(r, id) ==
    IF XX(id) = 33
    THEN LET r1 == IF r.qa = "Waiting" THEN [r EXCEPT !.qa = "Processing"] ELSE r IN
         IF r1.qa = "Processing" THEN [r1 EXCEPT !.selpos = @ + 1] ELSE r1
    ELSE IF r.qa = "Processing" THEN [r EXCEPT !.qa = "NA"] ELSE r
QaLink(r, id) ==
    IF XX(id) = 33 /\ r.qa \in {"Waiting", "Processing"}
    THEN (IF r.selpos <= Len(r.sel) THEN r.sel[r.selpos] ELSE -1) ELSE 0

InBitmapDef(r) == r.bmst \in {"WAITING", "COUNTING"}

(* WF: a class-31 NUMERIC (031000 031001 031002 ...) met while 201 / 202 / 207 is in force - directly, as a replication
   factor, or as the owner of a marker operator - is the region where FM-94 is silent and pybufrkit makes a choice.
   A behaviour that gets there ends with the pseudo error "OutsideWF": it is counted, never replayed, never judged. *)
WidthOpsInForce(r) == r.dw # 0 \/ r.ds # 0 \/ r.bsrY # 0
OutsideWF(r, id) == XX(id) = 31 /\ InB(id) /\ Kind(id) = "num" /\ WidthOpsInForce(r)

(* an element descriptor proper; id/w/sc/ref are given so that markers can reuse this *)
(* the element that gives an attribute its meaning: 031021 while associated fields are in force,
   the first 008023 after 224000, the first 008024 after 225000 *)
MeanStep(r, id, plain, idx) ==
    IF ~plain THEN r
    ELSE IF id = 31021 /\ r.assoc # <<>> THEN [r EXCEPT !.m31021 = idx]
    ELSE IF id = 8023 /\ r.w8023 THEN [r EXCEPT !.m8023 = idx, !.w8023 = FALSE]
    ELSE IF id = 8024 /\ r.w8024 THEN [r EXCEPT !.m8024 = idx, !.w8024 = FALSE]
    ELSE r

ElemField(r, id, lab, kind, w0, sc0, ref0, plain, link0, mean0, nextpc) ==
    LET link == IF link0 # 0 THEN link0 ELSE QaLink(r, id)
        r2 == MeanStep(QaStep(r, id), id, plain, Len(out) + 1)
        En(t, w, sc, ref, vs) == [Entry(lab, t, w, sc, ref, link, plain, vs) EXCEPT !.mean = mean0]
    IN IF link = -1 THEN Fail("StopIteration")
       ELSE IF kind = "str" THEN
            LET w == IF r.strw > 0 THEN 8 * r.strw ELSE 8 * (w0 \div 8) IN
            \E f \in Field("str", w, <<>>) : PutField(En("str", w, 0, WZero, f.vs), f, r2, nextpc)
       ELSE IF kind = "code" THEN
            LET forcedSet == IF id = 31031 /\ InBitmapDef(r) /\ Mode = "produce" THEN {<<0>>, <<1>>} ELSE {<<>>} IN
            \E fo \in forcedSet : \E f \in Field("code", w0, fo) :
                PutField(En("code", w0, 0, WZero, f.vs), f, r2, nextpc)
       ELSE LET w == EffW(r, id, w0) IN
            IF w < 1 THEN Fail("ValueError")
            ELSE \E f \in FieldW("num", w, <<>>, w0) :
                 PutField(En("num", w, EffSc(r, id, sc0), EffRef(r, id, ref0), f.vs), f, r2, nextpc)

Element ==
    /\ Normal /\ Ins.k = "E" /\ (phase = "main" \/ reg.assoc = <<>> \/ XX(Ins.id) = 31)
    /\ LET r1 == Pre(reg, Ins, out) IN
       IF r1.bmst = "ERR" THEN Fail("PyBufrKitError")
       ELSE IF ~InB(Ins.id) THEN Fail("UnknownDescriptor")
       ELSE IF OutsideWF(r1, Ins.id) THEN Fail("OutsideWF")
       ELSE ElemField(r1, Ins.id, IdStr(Ins.id), Kind(Ins.id), BWidth(Ins.id), BScale(Ins.id),
                      FromInt(BRef(Ins.id)), TRUE, 0, 0, pc + 1)

Sequence ==
    /\ Normal /\ Ins.k = "S"
    /\ LET r1 == Pre(reg, Ins, out) IN
       IF r1.bmst = "ERR" THEN Fail("PyBufrKitError")
       ELSE IF ~InD(Ins.id) THEN Fail("UnknownDescriptor")
       ELSE /\ reg' = r1 /\ GoTo(pc + 1)
            /\ UNCHANGED <<tid, ed, cmp, nsub, seed, sub, out, done, bits, pos, err>>

Fixed ==
    /\ Normal /\ Ins.k = "R"
    /\ LET r1 == Pre(reg, Ins, out) IN
       IF r1.bmst = "ERR" THEN Fail("PyBufrKitError")
       ELSE /\ reg' = r1
            /\ IF Ins.cnt = 0 \/ Ins.span = 0 THEN GoTo(pc + 1 + Ins.span)
               ELSE GoToWith(Append(frames, [start |-> pc + 1, end |-> pc + 1 + Ins.span, left |-> Ins.cnt]), pc + 1)
            /\ UNCHANGED <<tid, ed, cmp, nsub, seed, sub, out, done, bits, pos, err>>

(* the count a delayed replication must have when its body consumes bitmap-selected entries *)
BodyNeedsSel(p, i, span) ==
    \E j \in (i + 2)..(i + 1 + span) :
        \/ (p[j].k = "O" /\ p[j].id \in {223255, 224255, 225255, 232255})
        \/ (p[j].k = "E" /\ XX(p[j].id) = 33 /\ reg.qa # "NA")

FactorValue(f) == BitsToNat(f.vs[1].raw)

(* delayed replication: the class-31 factor is a field of its own, then the body is repeated *)
Delayed ==
    /\ Normal /\ Ins.k = "D"
    /\ LET r1 == Pre(reg, Ins, out)
           fid == P[pc + 1].id
       IN IF r1.bmst = "ERR" THEN Fail("PyBufrKitError")
          ELSE IF ~InB(fid) THEN Fail("UnknownDescriptor")
          ELSE IF OutsideWF(r1, fid) THEN Fail("OutsideWF")
          ELSE LET w == BWidth(fid)
                   top == IF w >= 8 THEN Fmax ELSE 1
                   choices == IF Mode # "produce" THEN {<<>>}
                              ELSE IF BodyNeedsSel(P, pc, Ins.span)
                                   THEN {UintBits(Len(r1.sel) - r1.selpos + 1, w)}
                              ELSE {UintBits(n, w) : n \in 0..top}
               IN \E fo \in choices : \E f \in Field(IF Kind(fid) = "code" THEN "code" ELSE "num", w, fo) :
                    LET n == FactorValue(f)
                        e == Entry(IdStr(fid), IF Kind(fid) = "code" THEN "code" ELSE "num", w, BScale(fid),
                                   FromInt(BRef(fid)), 0, TRUE, f.vs)
                        body == pc + 2
                    IN IF ~f.ok THEN Fail("MalformedData")
                       ELSE IF f.vs[1].miss \/ (cmp /\ ~AllEqual(f.vs)) THEN Fail("PyBufrKitError")
                       ELSE /\ out' = Append(out, [e EXCEPT !.d = f.d, !.p = pos + f.n])
                            /\ bits' = IF Mode = "produce" THEN bits \o f.fb ELSE bits
                            /\ pos' = pos + f.n
                            /\ reg' = QaStep(r1, fid)
                            /\ IF n = 0 \/ Ins.span = 0 THEN GoTo(body + Ins.span)
                               ELSE GoToWith(Append(frames, [start |-> body, end |-> body + Ins.span, left |-> n]), body)
                            /\ UNCHANGED <<tid, ed, cmp, nsub, seed, sub, done, err>>

(* ---- operators ------------------------------------------------------------ *)
OpId == Ins.id
OpX == OpId \div 1000
OpY == OpId % 1000

SetReg(r) == /\ reg' = r /\ GoTo(pc + 1)
             /\ UNCHANGED <<tid, ed, cmp, nsub, seed, sub, out, done, bits, pos, err>>

ConstField(lab, r) ==
    LET vs == [i \in 1..NSubCols |-> [miss |-> FALSE, raw |-> <<>>]] IN
    /\ out' = Append(out, Entry(lab, "const", 0, 0, WZero, 0, FALSE, vs))
    /\ reg' = r /\ GoTo(pc + 1)
    /\ UNCHANGED <<tid, ed, cmp, nsub, seed, sub, done, bits, pos, err>>

OperatorReg ==          \* operators that only change registers
    /\ Normal /\ Ins.k = "O" /\ OpX \in {201, 202, 203, 204, 206, 207, 208, 221, 235}
    /\ LET r1 == Pre(reg, Ins, out) IN
       IF r1.bmst = "ERR" THEN Fail("PyBufrKitError")
       ELSE CASE OpX = 201 -> SetReg([r1 EXCEPT !.dw = IF OpY = 0 THEN 0 ELSE OpY - 128])
              [] OpX = 202 -> SetReg([r1 EXCEPT !.ds = IF OpY = 0 THEN 0 ELSE OpY - 128])
              [] OpX = 203 -> SetReg(IF OpY = 255 THEN [r1 EXCEPT !.rvw = 0]
                                     ELSE IF OpY = 0 THEN [r1 EXCEPT !.rvw = 0, !.newref = <<>>]
                                     ELSE [r1 EXCEPT !.rvw = OpY])
              [] OpX = 204 -> IF OpY # 0 /\ r1.assoc # <<>> /\ ~NestedAssoc THEN Fail("OutsideWF")       \* nested 204: FM-94 is silent
                              ELSE IF OpY = 0 THEN (IF r1.assoc = <<>> THEN Fail("IndexError")
                                               ELSE SetReg([r1 EXCEPT !.assoc = SubSeq(@, 1, Len(@) - 1)]))
                              ELSE SetReg([r1 EXCEPT !.assoc = Append(@, OpY)])
              [] OpX = 206 -> SetReg([r1 EXCEPT !.skipw = OpY])
              [] OpX = 207 -> SetReg([r1 EXCEPT !.bsrY = OpY])
              [] OpX = 208 -> SetReg([r1 EXCEPT !.strw = OpY])
              [] OpX = 221 -> SetReg([r1 EXCEPT !.dnp = OpY])
              [] OpX = 235 -> SetReg([r1 EXCEPT !.backref = <<>>, !.sel = <<>>, !.selpos = 1, !.bmbits = <<>>])

(* 205YYY: YYY characters are inserted as a data field *)
OperatorChars ==
    /\ Normal /\ Ins.k = "O" /\ OpX = 205
    /\ LET r1 == Pre(reg, Ins, out) IN
       IF r1.bmst = "ERR" THEN Fail("PyBufrKitError")
       ELSE \E f \in Field("str", 8 * OpY, <<>>) :
            PutField(Entry(IdStr(OpId), "str", 8 * OpY, 0, WZero, 0, FALSE, f.vs), f, r1, pc + 1)

(* 222000 223000 224000 225000 232000: a bitmap (definition or recall) follows *)
OperatorBitmapIntro ==
    /\ Normal /\ Ins.k = "O" /\ OpX \in {222, 223, 224, 225, 232} /\ OpY = 0
    /\ LET r1 == Pre(reg, Ins, out) IN
       IF r1.bmst = "ERR" THEN Fail("PyBufrKitError")
       ELSE ConstField(IdStr(OpId), [r1 EXCEPT !.bmst = "INDICATOR", !.brb = Len(out),
                                               !.qa = IF OpX = 222 THEN "Waiting" ELSE @,
                                               !.w8023 = IF OpX = 224 THEN TRUE ELSE @,
                                               !.w8024 = IF OpX = 225 THEN TRUE ELSE @])

Operator236 ==
    /\ Normal /\ Ins.k = "O" /\ OpX = 236
    /\ LET r1 == Pre(reg, Ins, out) IN
       IF r1.bmst = "ERR" THEN Fail("PyBufrKitError") ELSE ConstField(IdStr(OpId), r1)

(* 237000 recalls the stored selection from its start, 237255 cancels the definition *)
Operator237 ==
    /\ Normal /\ Ins.k = "O" /\ OpX = 237
    /\ LET r1 == Pre(reg, Ins, out) IN
       IF r1.bmst = "ERR" THEN Fail("PyBufrKitError")
       ELSE ConstField(IdStr(OpId), IF OpY = 0 THEN [r1 EXCEPT !.selpos = 1] ELSE r1)

(* 223255 224255 225255 232255: the next value belongs to the next element selected by the bitmap *)
OperatorMarker ==
    /\ Normal /\ Ins.k = "O" /\ OpX \in {223, 224, 225, 232} /\ OpY = 255
    /\ LET r1 == Pre(reg, Ins, out) IN
       IF r1.bmst = "ERR" THEN Fail("PyBufrKitError")
       ELSE IF r1.selpos > Len(r1.sel) THEN Fail("StopIteration")
       ELSE IF r1.assoc # <<>> THEN Fail("OutsideWF")                  \* 204 in force at a marker operator: FM-94 is silent
       ELSE LET owner == r1.sel[r1.selpos]
                oe == out[owner]
                oid == ToInt(oe.lab)
                r2 == [r1 EXCEPT !.selpos = @ + 1]
                lab == Lab5(MarkerPrefix(OpId), oid)
                w0 == IF OpId = 225255 THEN BWidth(oid) + 1 ELSE BWidth(oid)
                ref0 == IF OpId = 225255 THEN WNeg(FromBits(<<1>> \o Zeros(BWidth(oid)))) ELSE FromInt(BRef(oid))
                mean0 == IF OpId = 224255 THEN r1.m8023 ELSE IF OpId = 225255 THEN r1.m8024 ELSE 0
            IN IF OutsideWF(r2, oid) THEN Fail("OutsideWF") ELSE
               ElemField(r2, oid, lab, Kind(oid), w0, BScale(oid), ref0, FALSE, owner, mean0, pc + 1)

OperatorUnknown ==
    /\ Normal /\ Ins.k = "O"
    /\ ~(OpX \in {201, 202, 203, 204, 205, 206, 207, 208, 221, 222, 223, 224, 225, 232, 235, 236, 237})
    /\ Fail("NotImplementedError")

(* ---- subsets ---------------------------------------------------------------- *)
NextRegs(r) == IF ResetPolicy = "fm94" THEN R0 ELSE [r EXCEPT !.newref = <<>>]

NextSubset ==
    /\ err = "" /\ AtEnd /\ ~cmp /\ sub < nsub
    /\ done' = Append(done, out)
    /\ out' = <<>> /\ sub' = sub + 1 /\ pc' = 1 /\ frames' = <<>> /\ phase' = "pre"
    /\ reg' = NextRegs(reg)
    /\ UNCHANGED <<tid, ed, cmp, nsub, seed, bits, pos, err>>

Finished == err # "" \/ (AtEnd /\ (cmp \/ sub = nsub))

Init ==
    /\ tid \in 1..NCases
    /\ IF Mode = "produce"
       THEN ed \in Editions /\ cmp \in Compressions /\ nsub \in SubsetCounts /\ seed \in Seeds
       ELSE ed = Hdrs[tid].ed /\ cmp = Hdrs[tid].cmp /\ nsub = Hdrs[tid].nsub /\ seed = 0
    /\ sub = 1 /\ pc = 1 /\ frames = <<>> /\ phase = "pre" /\ reg = R0
    /\ out = <<>> /\ done = <<>> /\ bits = <<>> /\ pos = 0 /\ err = ""

Next ==
    \/ DnpDrop \/ DefRefval \/ SkipLocal \/ Assoc \/ Element \/ Sequence \/ Fixed \/ Delayed
    \/ OperatorReg \/ OperatorChars \/ OperatorBitmapIntro \/ Operator236 \/ Operator237
    \/ OperatorMarker \/ OperatorUnknown \/ NextSubset

Spec == Init /\ [][Next]_vars

(***************************************************************************)
(* Results                                                                 *)
(***************************************************************************)
AllOut == IF cmp THEN <<out>> ELSE Append(done, out)        \* valid when Finished

(* the scaled integer N = raw + reference of a numeric entry, per carried subset *)
NOf(e, i) == IF e.t = "num" THEN WAdd(FromBits(e.v[i].raw), e.ref)
             ELSE IF e.t = "ref" THEN FromSignMagnitude(e.v[i].raw)
             ELSE WZero

(* ---- invariants --------------------------------------------------------------- *)
TypeOK ==
    /\ pc \in 1..(Len(P) + 1)
    /\ phase \in {"pre", "main"}
    /\ reg.bmst \in {"NA", "INDICATOR", "WAITING", "COUNTING", "ERR"}
    /\ \A i \in 1..Len(out) : Len(out[i].v) = NSubCols

(* a field wider than one bit is missing exactly when its bits are all ones *)
MissingIffAllOnes ==
    \A i \in 1..Len(out) : \A j \in 1..Len(out[i].v) :
        out[i].t \in {"num", "code", "str"} =>
            (out[i].v[j].miss <=> (out[i].w > 1 /\ IsAllOnes(out[i].v[j].raw)))

(* every link leads from an attribute to an earlier plain element *)
LinksPointBack ==
    \A i \in 1..Len(out) : out[i].link # 0 => (out[i].link \in 1..(i - 1) /\ out[out[i].link].plain)

(* uncompressed: the cursor is the sum of the widths written so far *)
RECURSIVE SumW(_, _)
SumW(o, i) == IF i > Len(o) THEN 0 ELSE o[i].w + SumW(o, i + 1)
RECURSIVE SumDone(_, _)
SumDone(d, i) == IF i > Len(d) THEN 0 ELSE SumW(d[i], 1) + SumDone(d, i + 1)
CursorIsSumOfWidths == (~cmp /\ err = "") => pos = SumDone(done, 1) + SumW(out, 1)
ProducedBitsMatchCursor == Mode = "produce" => Len(bits) = pos

FramesNested == \A i \in 1..Len(frames) : frames[i].start <= frames[i].end /\ frames[i].left >= 1

(***************************************************************************)
(* C07: attributes and their owners, stated independently of sel / selpos  *)
(***************************************************************************)
(* the element at the k-th zero bit (k >= 1) of a bitmap laid over a window; 0 if there is none *)
RECURSIVE NthZeroFrom(_, _, _, _)
NthZeroFrom(window, bm, k, i) ==
    IF i > Len(bm) \/ i > Len(window) THEN 0
    ELSE IF bm[i] = 0 THEN (IF k = 1 THEN window[i] ELSE NthZeroFrom(window, bm, k - 1, i + 1))
    ELSE NthZeroFrom(window, bm, k, i + 1)
NthZero(window, bm, k) == NthZeroFrom(window, bm, k, 1)

(* whenever a step appends a linked value, it belongs to the k-th zero bit of the governing bitmap,
   k being the number of values taken from that bitmap since it was defined or recalled *)
KthValueKthZero ==
    [][(Len(out') = Len(out) + 1 /\ out'[Len(out')].link # 0)
          => out'[Len(out')].link = NthZero(reg'.backref, reg'.bmbits, reg'.selpos - 1)]_vars

(* the back-reference window consists of plain element entries that precede the operator *)
BackRefWindowIsPlain ==
    \A i \in 1..Len(reg.backref) : reg.backref[i] \in 1..Len(out) /\ out[reg.backref[i]].plain
BackRefWindowAscending ==
    \A i \in 1..(Len(reg.backref) - 1) : reg.backref[i] < reg.backref[i + 1]

(* an associated field is directly followed by the element it belongs to *)
AssocPrecedesOwner ==
    \A i \in 1..(Len(out) - 1) :
        SubSeq(out[i].lab, 1, 1) = "A" =>
            /\ SubSeq(out[i + 1].lab, 2, 6) = SubSeq(out[i].lab, 2, 6)
            /\ SubSeq(out[i + 1].lab, 1, 1) # "A"

(* difference statistics: one bit wider than the owner, reference -2^width - under the operators in
   force WHEN THE MARKER IS PROCESSED (an action property: the registers may change afterwards) *)
DiffStatsParams ==
    [][(Len(out') = Len(out) + 1 /\ SubSeq(out'[Len(out')].lab, 1, 1) = "D" /\ out'[Len(out')].t = "num") =>
          LET e == out'[Len(out')]
              oid == ToInt(out'[e.link].lab)
          IN /\ e.w = BWidth(oid) + 1 + reg.dw + W207(reg.bsrY)
             /\ e.ref = WMulPow10(WNeg(FromBits(<<1>> \o Zeros(BWidth(oid)))), reg.bsrY)
             /\ e.sc = BScale(oid) + reg.ds + reg.bsrY]_vars

(* the meaning attached to an attribute is the right kind of element and precedes it *)
MeaningIsRightElement ==
    \A i \in 1..Len(out) : out[i].mean # 0 =>
        /\ out[i].mean < i
        /\ out[out[i].mean].lab = (CASE SubSeq(out[i].lab, 1, 1) = "A" -> "031021"
                                      [] SubSeq(out[i].lab, 1, 1) = "F" -> "008023"
                                      [] SubSeq(out[i].lab, 1, 1) = "D" -> "008024"
                                      [] OTHER -> "none")
=============================================================================
