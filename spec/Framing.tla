------------------------------ MODULE Framing ------------------------------
(***************************************************************************)
(* The section layout of a BUFR message, editions 2, 3 and 4, written out  *)
(* from FM-94 (not read from pybufrkit/definitions/*.json).                *)
(*                                                                         *)
(*   section 0 : "BUFR", total length (3 octets), edition (1)              *)
(*   section 1 : identification; 18 octets in editions 2/3 (17 + one       *)
(*               octet of local use, which pybufrkit calls "second"),      *)
(*               22 octets in edition 4                                    *)
(*   section 2 : optional; length (3), reserved (1), local octets          *)
(*   section 3 : length (3), reserved (1), number of subsets (2), flags    *)
(*               (1: observed, compressed), descriptors (2 octets each)    *)
(*   section 4 : length (3), reserved (1), data bits                       *)
(*   section 5 : "7777"                                                    *)
(* Sections 1-4 are padded with zero bits to whole octets, and to an even  *)
(* number of octets in editions up to 3.                                   *)
(*                                                                         *)
(* This module holds the pure layout operators; the length-accounting      *)
(* state machine (encoder policies, reader consumption) is FramingSM.      *)
(***************************************************************************)
EXTENDS Naturals, Integers, Sequences, Bits

(* k-octet big-endian representation of n *)
RECURSIVE U(_, _)
U(n, k) == IF k = 0 THEN <<>> ELSE U(n \div 256, k - 1) \o <<n % 256>>

BUFR == <<66, 85, 70, 82>>
SEVENS == <<55, 55, 55, 55>>

DescOctets(id) == <<(id \div 100000) * 64 + ((id \div 1000) % 100), id % 1000>>
RECURSIVE DescListOctets(_)
DescListOctets(ids) == IF ids = <<>> THEN <<>> ELSE DescOctets(Head(ids)) \o DescListOctets(Tail(ids))

(* pad an octet string to the section granularity of the edition *)
PadSection(ed, os) == IF ed <= 3 /\ Len(os) % 2 = 1 THEN Append(os, 0) ELSE os
(* section = 3-octet length followed by the body; the length counts itself *)
WithLength(ed, body) == LET padded == PadSection(ed, <<0, 0, 0>> \o body) IN U(Len(padded), 3) \o SubSeq(padded, 4, Len(padded))

(* identification fields: a record with every field any edition needs *)
Ident0 == [master |-> 0, centre |-> 0, subcentre |-> 0, update |-> 0, category |-> 0, intlsub |-> 0, localsub |-> 0,
           mversion |-> 33, lversion |-> 0, year |-> 2020, yoc |-> 20, month |-> 1, day |-> 2, hour |-> 3, minute |-> 4, second |-> 5]
(* every identification field at the top of its range (editions up to 3 carry the year of the century, 100 = the
   year 2000, and one-octet centres); no local tables are asked for *)
IdentMax == [master |-> 0, centre |-> 65535, subcentre |-> 65535, update |-> 255, category |-> 255, intlsub |-> 255, localsub |-> 255,
             mversion |-> 33, lversion |-> 0, year |-> 2000, yoc |-> 100, month |-> 12, day |-> 31, hour |-> 23, minute |-> 59, second |-> 59]

Sec1Body(ed, f, hasSec2) ==
    LET flag == IF hasSec2 THEN 128 ELSE 0 IN
    CASE ed = 4 -> <<f.master>> \o U(f.centre, 2) \o U(f.subcentre, 2) \o <<f.update, flag, f.category, f.intlsub, f.localsub,
                     f.mversion, f.lversion>> \o U(f.year, 2) \o <<f.month, f.day, f.hour, f.minute, f.second>>
      [] ed = 3 -> <<f.master, f.subcentre % 256, f.centre % 256, f.update, flag, f.category, f.localsub, f.mversion, f.lversion,
                     f.yoc, f.month, f.day, f.hour, f.minute, f.second>>
      [] ed = 2 -> <<f.master>> \o U(f.centre, 2) \o <<f.update, flag, f.category, f.localsub, f.mversion, f.lversion,
                     f.yoc, f.month, f.day, f.hour, f.minute, f.second>>

Sec1(ed, f, hasSec2) == WithLength(ed, Sec1Body(ed, f, hasSec2))
Sec2(ed, local) == WithLength(ed, <<0>> \o local)
Sec3(ed, nsub, obs, cmp, ids) ==
    WithLength(ed, <<0>> \o U(nsub, 2) \o <<(IF obs THEN 128 ELSE 0) + (IF cmp THEN 64 ELSE 0)>> \o DescListOctets(ids))

(* data bits -> octets, zero padded *)
DataOctets(bs) == BitsToOctets(bs \o Zeros(PadLen(Len(bs), 8)))
Sec4(ed, databits) == WithLength(ed, <<0>> \o DataOctets(databits))

Body(ed, f, sec2, nsub, obs, cmp, ids, databits) ==
    Sec1(ed, f, sec2 # <<>>) \o (IF sec2 # <<>> THEN Sec2(ed, sec2[1]) ELSE <<>>) \o Sec3(ed, nsub, obs, cmp, ids) \o Sec4(ed, databits)

(* sec2 = <<>> (absent) or <<local octets>> (present) *)
Message(ed, f, sec2, nsub, obs, cmp, ids, databits) ==
    LET b == Body(ed, f, sec2, nsub, obs, cmp, ids, databits) IN
    BUFR \o U(8 + Len(b) + 4, 3) \o <<ed>> \o b \o SEVENS

(***************************************************************************)
(* Reading the framing of a message from its octets (independent of the    *)
(* decoder): edition, presence of section 2, subsets, flags, descriptor    *)
(* list and the position of the data.  Offsets are 0-based octet offsets   *)
(* of a section's first octet.                                             *)
(***************************************************************************)
Oc(m, off, i) == m[off + i]                         \* i-th octet (1-based) of the section at offset off
U3(m, off) == (m[off + 1] * 256 + m[off + 2]) * 256 + m[off + 3]
U2At(m, off, i) == m[off + i] * 256 + m[off + i + 1]

RECURSIVE ReadDescs(_, _, _)
ReadDescs(m, at, n) ==      \* n descriptors starting at 0-based offset `at`
    IF n = 0 THEN <<>>
    ELSE <<(m[at + 1] \div 64) * 100000 + (m[at + 1] % 64) * 1000 + m[at + 2]>> \o ReadDescs(m, at + 2, n - 1)

ParseHeader(m) ==
    LET ed == m[8]
        s1 == 8
        l1 == U3(m, s1)
        has2 == (IF ed = 4 THEN Oc(m, s1, 10) ELSE Oc(m, s1, 8)) >= 128
        s2 == s1 + l1
        l2 == IF has2 THEN U3(m, s2) ELSE 0
        s3 == s2 + l2
        l3 == U3(m, s3)
        s4 == s3 + l3
        l4 == U3(m, s4)
        flags == Oc(m, s3, 7)
    IN [ed |-> ed, total |-> U3(m, 4), has2 |-> has2,
        s1 |-> s1, l1 |-> l1, s2 |-> s2, l2 |-> l2, s3 |-> s3, l3 |-> l3, s4 |-> s4, l4 |-> l4,
        nsub |-> U2At(m, s3, 5), obs |-> flags >= 128, cmp |-> (flags \div 64) % 2 = 1,
        ids |-> ReadDescs(m, s3 + 7, (l3 - 7) \div 2),
        data0 |-> s4 + 4,
        master |-> Oc(m, s1, 4),
        centre |-> IF ed = 4 THEN U2At(m, s1, 5) ELSE IF ed = 3 THEN Oc(m, s1, 6) ELSE U2At(m, s1, 5),
        subcentre |-> IF ed = 4 THEN U2At(m, s1, 7) ELSE IF ed = 3 THEN Oc(m, s1, 5) ELSE 0,
        mversion |-> IF ed = 4 THEN Oc(m, s1, 14) ELSE Oc(m, s1, 11),
        lversion |-> IF ed = 4 THEN Oc(m, s1, 15) ELSE Oc(m, s1, 12),
        category |-> IF ed = 4 THEN Oc(m, s1, 11) ELSE Oc(m, s1, 9)]
=============================================================================
