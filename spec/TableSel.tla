------------------------------ MODULE TableSel ------------------------------
(***************************************************************************)
(* Which table directories a message's identification selects (C14):       *)
(* the documented fall-back rule of the library, as a pure function of the *)
(* directories that exist (given as data).                                 *)
(*                                                                         *)
(*   master table number   -> itself if tables/<n> exists, else 0          *)
(*   WMO tables            -> <n>/0_0/<version> if it exists, else version *)
(*                            33 (a version of 0 also means 33)            *)
(*   local tables          -> none if the local version is 0; else         *)
(*                            <n>/<centre>_<subcentre>/<local> if it       *)
(*                            exists, else <n>/<centre>_0/<local> if it    *)
(*                            exists, else none                            *)
(***************************************************************************)
EXTENDS Naturals, Sequences, TLC, Json

CONSTANTS Masters,      \* set of existing master table numbers (directories)
          Dirs,         \* set of existing <<master, centres string, version>> triples
          Qs            \* set of queries [m, c, s, v, l]

DefaultVersion == 33
CS(c, s) == ToString(c) \o "_" \o ToString(s)

Norm(q) ==
    LET m == IF q.m \in Masters THEN q.m ELSE 0
        v == IF q.v = 0 THEN DefaultVersion ELSE q.v
        wmo == IF <<m, "0_0", v>> \in Dirs THEN <<m, "0_0", v>> ELSE <<m, "0_0", DefaultVersion>>
        loc == IF q.l = 0 THEN <<>>
               ELSE IF <<m, CS(q.c, q.s), q.l>> \in Dirs THEN <<m, CS(q.c, q.s), q.l>>
               ELSE IF <<m, CS(q.c, 0), q.l>> \in Dirs THEN <<m, CS(q.c, 0), q.l>>
               ELSE <<>>
    IN [wmo |-> wmo, loc |-> loc]

VARIABLE q
Init == q \in Qs
Next == UNCHANGED q

(* whatever is selected exists, except the final default which is taken on trust *)
SelectedExists == LET n == Norm(q) IN
    /\ (n.wmo \in Dirs \/ n.wmo[3] = DefaultVersion)
    /\ (n.loc # <<>> => n.loc \in Dirs)
ExactHitIsKept == (<<q.m, "0_0", q.v>> \in Dirs) => Norm(q).wmo = <<q.m, "0_0", q.v>>
NoLocalWhenZero == q.l = 0 => Norm(q).loc = <<>>
Emit == PrintT(ToJson([q |-> q, n |-> Norm(q)]))
=============================================================================
