------------------------------ MODULE Tables ------------------------------
(***************************************************************************)
(* BUFR Table B / Table D as DATA, and the FM-94 rules for turning a list  *)
(* of descriptors into a template.                                         *)
(*                                                                         *)
(* The tables are read by the specification itself from the repository's   *)
(* JSON files (pybufrkit/tables/<master>/<centre_sub>/<version>/Table?.json)*)
(* with JsonDeserialize, so nothing of tables.py / descriptors.py is       *)
(* trusted.  A Table B entry is <<name, unit, scale, reference, width,     *)
(* crex...>>, a Table D entry <<name, <<member ids>>>>, keys are 6-digit   *)
(* strings.                                                                *)
(*                                                                         *)
(* A template is a flat PROGRAM: a sequence of instructions                *)
(*   [k |-> "E", id]                 element descriptor 0XXYYY             *)
(*   [k |-> "F", id]                 delayed replication factor (class 31) *)
(*   [k |-> "R", id, span, cnt]      fixed replication 1XXYYY, YYY = cnt   *)
(*   [k |-> "D", id, span]           delayed replication 1XX000; the next  *)
(*                                   instruction is its "F", then the body *)
(*   [k |-> "O", id]                 operator 2XXYYY                       *)
(*   [k |-> "S", id, span]           sequence 3XXYYY, body follows         *)
(* span = number of instructions of the body (not counting the "F").       *)
(***************************************************************************)
EXTENDS Naturals, Integers, Sequences, TLC, Json, IOUtils

CONSTANTS TableDirs,    \* sequence of directories, later ones override earlier ones (WMO, then local)
          ExtraB, ExtraD   \* entries defined in-stream (C20): functions from 6-digit keys to entries in the
                           \* layout of the table files; they override the files.  <<>> when there are none

(* ---- descriptor ids ------------------------------------------------------ *)
FF(id) == id \div 100000
XX(id) == (id \div 1000) % 100
YY(id) == id % 1000

Pad6(s) == CASE Len(s) = 6 -> s [] Len(s) = 5 -> "0" \o s [] Len(s) = 4 -> "00" \o s
             [] Len(s) = 3 -> "000" \o s [] Len(s) = 2 -> "0000" \o s [] Len(s) = 1 -> "00000" \o s
IdStr(id) == Pad6(ToString(id))

DigitOf(c) == CASE c = "0" -> 0 [] c = "1" -> 1 [] c = "2" -> 2 [] c = "3" -> 3 [] c = "4" -> 4
                [] c = "5" -> 5 [] c = "6" -> 6 [] c = "7" -> 7 [] c = "8" -> 8 [] c = "9" -> 9

(* ---- the tables ----------------------------------------------------------- *)
RECURSIVE Merge(_, _, _)
Merge(dirs, fname, i) ==
    IF i > Len(dirs) THEN <<>>
    ELSE LET rest == Merge(dirs, fname, i + 1)
             this == JsonDeserialize(dirs[i] \o "/" \o fname)
         IN IF i = Len(dirs) THEN this
            ELSE [k \in (DOMAIN this) \cup (DOMAIN rest) |-> IF k \in DOMAIN rest THEN rest[k] ELSE this[k]]

(* TLC re-evaluates a definition that involves RECURSIVE operators at every use (it cannot see that
   it is constant), so the merged tables are computed once, when the ASSUME is evaluated at start-up,
   and kept in TLC registers that every worker inherits. *)
Over(a, b) == [k \in (DOMAIN a) \cup (DOMAIN b) |-> IF k \in DOMAIN a THEN a[k] ELSE b[k]]     \* a wins
ASSUME TLCSet(11, IF ExtraB = <<>> THEN Merge(TableDirs, "TableB.json", 1) ELSE Over(ExtraB, Merge(TableDirs, "TableB.json", 1)))
ASSUME TLCSet(12, IF ExtraD = <<>> THEN Merge(TableDirs, "TableD.json", 1) ELSE Over(ExtraD, Merge(TableDirs, "TableD.json", 1)))
TableB == TLCGet(11)
TableD == TLCGet(12)

InB(id) == IdStr(id) \in DOMAIN TableB
InD(id) == IdStr(id) \in DOMAIN TableD

BEntry(id) == TableB[IdStr(id)]
BUnit(id)  == BEntry(id)[2]
BScale(id) == BEntry(id)[3]
BRef(id)   == BEntry(id)[4]
BWidth(id) == BEntry(id)[5]

(* FM-94 element kinds.  The unit spelling differs between the bundled table versions
   ("CODE TABLE" up to version 34, "Code table" from 35 on); both are code tables. *)
CodeUnits == {"CODE TABLE", "Code table", "FLAG TABLE", "Flag table"}
FlagUnits == {"FLAG TABLE", "Flag table"}
Kind(id) == IF BUnit(id) = "CCITT IA5" THEN "str" ELSE IF BUnit(id) \in CodeUnits THEN "code" ELSE "num"
(* units on which FM-94 and an implementation may reasonably disagree; kept out of generated templates *)
AmbiguousUnit(id) == BUnit(id) \notin CodeUnits /\ \E u \in {"Code table ", "CODE TABLE defined by originating/generating centre",
                         "Code table defined by originating/generating centre", "Common CODE TABLE C-1", "Common Code table C-1",
                         "Common CODE TABLE C-11", "Common Code table C-11", "Common CODE TABLE C-12", "Common Code table C-12",
                         "Common CODE TABLE C-14", "Common Code table C-14"} : BUnit(id) = u

(* member ids of a sequence are strings in the table file: "301001" -> 301001 *)
RECURSIVE ToIntAcc(_, _, _)
ToIntAcc(s, i, acc) == IF i > Len(s) THEN acc ELSE ToIntAcc(s, i + 1, 10 * acc + DigitOf(SubSeq(s, i, i)))
ToInt(s) == ToIntAcc(s, 1, 0)
SeqMembers(id) == LET m == TableD[IdStr(id)][2] IN [i \in 1..Len(m) |-> ToInt(m[i])]

(***************************************************************************)
(* Build: FM-94 94.5.4 - a replication descriptor 1XXYYY governs the next  *)
(* X descriptors (counted in the list as written: a sequence counts one,   *)
(* a nested replication counts itself, its factor and its members); when   *)
(* YYY = 0 the class-31 factor comes first and is not among the X.         *)
(***************************************************************************)
E(id) == [k |-> "E", id |-> id, span |-> 0, cnt |-> 0]
Fa(id) == [k |-> "F", id |-> id, span |-> 0, cnt |-> 0]
O(id) == [k |-> "O", id |-> id, span |-> 0, cnt |-> 0]
Min(a, b) == IF a <= b THEN a ELSE b

(* NcepReplicationOnlySequence (a named deviation, in-stream NCEP tables only): a sequence that consists of
   nothing but a replication descriptor (and its factor) stands for that replication applied to the
   descriptors that FOLLOW the sequence in the list *)
NcepStyle(h) == InD(h) /\ LET m == SeqMembers(h) IN
    Len(m) >= 1 /\ FF(m[1]) = 1 /\ Len(m) = (IF YY(m[1]) = 0 THEN 2 ELSE 1)

RECURSIVE BuildList(_, _)
(* ids: integers; seqOf(id) gives the member ids of a sequence *)
BuildList(ids, depth) ==
    IF ids = <<>> THEN <<>>
    ELSE
      LET h == Head(ids) t == Tail(ids) IN
      CASE FF(h) = 0 -> <<E(h)>> \o BuildList(t, depth)
        [] FF(h) = 2 -> <<O(h)>> \o BuildList(t, depth)
        [] FF(h) = 3 ->
             IF NcepStyle(h) THEN BuildList(SeqMembers(h) \o t, depth)
             ELSE
             LET body == IF InD(h) /\ depth < 12 THEN BuildList(SeqMembers(h), depth + 1) ELSE <<>>
             IN <<[k |-> "S", id |-> h, span |-> Len(body), cnt |-> 0]>> \o body \o BuildList(t, depth)
        [] FF(h) = 1 ->
             LET delayed == YY(h) = 0
                 after == IF delayed /\ t # <<>> THEN Tail(t) ELSE t
                 n == Min(XX(h), Len(after))
                 body == BuildList(SubSeq(after, 1, n), depth)
                 rest == SubSeq(after, n + 1, Len(after))
             IN IF delayed
                THEN <<[k |-> "D", id |-> h, span |-> Len(body), cnt |-> 0]>>
                       \o (IF t # <<>> THEN <<Fa(Head(t))>> ELSE <<>>) \o body \o BuildList(rest, depth)
                ELSE <<[k |-> "R", id |-> h, span |-> Len(body), cnt |-> YY(h)]>> \o body \o BuildList(rest, depth)

Build(ids) == BuildList(ids, 0)

(* ---- Flatten: the descriptor list a program was built from ---------------- *)
RECURSIVE FlattenFrom(_, _, _)
FlattenFrom(prog, i, stop) ==
    IF i > stop THEN <<>>
    ELSE LET ins == prog[i] IN
         IF ins.k = "S" THEN <<ins.id>> \o FlattenFrom(prog, i + 1 + ins.span, stop)
         ELSE <<ins.id>> \o FlattenFrom(prog, i + 1, stop)
Flatten(prog) == FlattenFrom(prog, 1, Len(prog))

(* ---- Expand: every descriptor with sequences replaced by their members ---- *)
Expand(prog) == LET keep == SelectSeq(prog, LAMBDA ins : ins.k # "S") IN [i \in 1..Len(keep) |-> keep[i].id]

(* well-formedness of a program with respect to the tables *)
Defined(prog) == \A i \in 1..Len(prog) :
    CASE prog[i].k \in {"E", "F"} -> InB(prog[i].id)
      [] prog[i].k = "S" -> InD(prog[i].id)
      [] OTHER -> TRUE
FactorsAreClass31(prog) == \A i \in 1..Len(prog) : prog[i].k = "F" => XX(prog[i].id) = 31 /\ FF(prog[i].id) = 0
=============================================================================
