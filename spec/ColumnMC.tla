------------------------------ MODULE ColumnMC ------------------------------
(***************************************************************************)
(* Exhaustive model of one compressed column: every column of 1..MaxSub    *)
(* subsets over the raw domain {missing, 0..2^w-2} (w in Widths; one-octet *)
(* strings over StrPool), written with every legal difference width        *)
(* dmin..dmin+Slack, is one terminal state.  The invariants say that the    *)
(* reader of Column.tla (written independently of the writer) returns      *)
(* exactly the column, and fix the canonical facts the property C02/C05    *)
(* names: width 0 exactly when all subsets agree, all-ones difference and  *)
(* only that for a missing entry, the one-bit rule.                        *)
(***************************************************************************)
EXTENDS Column, TLC

CONSTANTS Widths, MaxSub, Slack, StrPool, Kinds

VARIABLES kind, w, nn, col, d, ready    \* ready: the column is complete and its width chosen
vars == <<kind, w, nn, col, d, ready>>

Pats(k, ww) == IF k = "str" THEN {OctetBits(o) : o \in StrPool} ELSE {UintBits(v, ww) : v \in 0..(2 ^ ww - 1)}
MkVal(k, ww, raw) == [miss |-> IF k = "str" THEN IsAllOnes(raw) ELSE (ww > 1 /\ IsAllOnes(raw)), raw |-> raw]
Vals(k, ww) == {MkVal(k, ww, r) : r \in Pats(k, ww)}

StrWidth(c) == IF AllMissing(c) \/ AllEqual(c) THEN 0 ELSE 1

(* the column is filled one subset at a time (so that TLC's workers share the enumeration) and
   the difference width is chosen last *)
Init ==
    /\ kind \in Kinds
    /\ w \in (IF kind = "str" THEN {8} ELSE Widths)
    /\ nn \in 1..MaxSub
    /\ col = <<>> /\ d = 0 /\ ready = FALSE

AddSubset ==
    /\ ~ready /\ Len(col) < nn
    /\ \E v \in Vals(kind, w) : col' = Append(col, v)
    /\ UNCHANGED <<kind, w, nn, d, ready>>

ChooseWidth ==
    /\ ~ready /\ Len(col) = nn
    /\ d' \in (IF kind = "str" THEN {StrWidth(col)} ELSE LegalWidths(col, Slack))
    /\ ready' = TRUE
    /\ UNCHANGED <<kind, w, nn, col>>

Next == AddSubset \/ ChooseWidth

Written == IF kind = "str" THEN StrColumnBits(w, col) ELSE NumColumnBits(w, col, d)
GetW(p, n) == SubSeq(Written, p + 1, p + n)
ReadBack == IF kind = "str" THEN RdStrColumn(GetW, Len(col), w, 0)
            ELSE RdNumColumn(GetW, Len(col), kind, w, 0, kind = "code")

(* the reader returns the column, for every legal width *)
DecodeAnyLegalWidth == ready =>
    /\ ReadBack.ok
    /\ ReadBack.vs = col
    /\ ReadBack.n = Len(Written)
    /\ ReadBack.d = d

WidthZeroIffAllAgree == ready => ((d = 0) <=> AllEqual(col))

AllMissingColumn == (ready /\ AllMissing(col)) => Written = Ones(w) \o Zeros(6)

(* in a numeric column the i-th difference is all ones exactly when entry i is missing *)
DiffOf(i) == GetW(w + 6 + (i - 1) * d, d)
MissingIsAllOnesDifference ==
    (ready /\ kind # "str" /\ d > 0) => \A i \in 1..Len(col) : col[i].miss <=> IsAllOnes(DiffOf(i))

(* a one-bit difference can only say "equal to the minimum" or "missing" *)
OneBitRule == (ready /\ kind # "str" /\ d = 1) => \A i \in 1..Len(col) : col[i].miss \/ col[i].raw = MinPat(col, 1, <<>>)

(* the smallest legal width really is the smallest: one bit less cannot hold the range next to the marker *)
RangeNat == BitsToNat(RangeOf(col))
SmallestIsSmallest ==
    (ready /\ kind # "str" /\ ~AllEqual(col) /\ w <= 20) =>
        LET d0 == DMin(RangeOf(col)) IN /\ RangeNat <= 2 ^ d0 - 2 \/ (d0 = 1 /\ RangeNat = 0)
                                        /\ (d0 > 1 => RangeNat > 2 ^ (d0 - 1) - 2)

=============================================================================
