------------------------------ MODULE MdQuery ------------------------------
(***************************************************************************)
(* Metadata queries  '%name'  and  '%k.name'  (C17).                       *)
(*                                                                         *)
(* The section layouts (parameter names, widths, types, in order) are read *)
(* AS DATA from pybufrkit/definitions/section*.json - they are the         *)
(* documented names a user writes in a query.  A message is a pool message *)
(* assembled by Framing.Message (whose layouts are written independently   *)
(* from FM-94) with a different number in every identification field, so   *)
(* that which section answered a query is observable.  Parsing the message *)
(* octets field by field with the definitions must reproduce those numbers *)
(* (LayoutsAgree) - the two descriptions of the layout check each other.   *)
(*                                                                         *)
(* Query semantics: the expression is stripped of blanks; it must start    *)
(* with '%'; with a '.', what precedes the dot must be an integer section  *)
(* index; the answer is the value of the first parameter of that name in   *)
(* the first section (in section order; with an index: in that section)    *)
(* that has it, else None.                                                 *)
(***************************************************************************)
EXTENDS Framing, TLC, Json, IOUtils, FiniteSets

CONSTANTS DefDir,        \* directory of the section definition files
          EditionsQ,     \* editions of the pool
          Prefixes, Indexes, Suffixes,     \* pieces of which expressions are assembled
          ExtraNames     \* names that exist in no section

Def(file) == JsonDeserialize(DefDir \o "/" \o file)
SectionFile(e, i) == CASE i = 0 -> "section0.json" [] i = 1 -> "section1-" \o ToString(e) \o ".json"
                       [] i = 2 -> "section2.json" [] i = 3 -> "section3.json" [] i = 4 -> "section4.json"
                       [] i = 5 -> "section5.json"
ASSUME TLCSet(31, [e \in {2, 3, 4} |-> [i \in 0..5 |-> Def(SectionFile(e, i)).parameters]])
Params(e, i) == TLCGet(31)[e][i]

(* every identification field carries its own number *)
IdentQ == [master |-> 0, centre |-> 74, subcentre |-> 3, update |-> 6, category |-> 9, intlsub |-> 11, localsub |-> 12,
           mversion |-> 33, lversion |-> 0, year |-> 2021, yoc |-> 21, month |-> 8, day |-> 17, hour |-> 19, minute |-> 23, second |-> 29]
PoolQ(e, has2) == Message(e, IdentQ, IF has2 THEN <<<<170, 85>>>> ELSE <<>>, 1, TRUE, FALSE, <<1001, 2001>>, <<0, 0, 0, 0, 1, 0, 1, 1, 0>>)

(* ---- reading a message with the definitions ------------------------------------ *)
RECURSIVE ReadParams(_, _, _, _, _)
(* returns a sequence of [name, val] for the parameters ps[j..] read at bit position p (0-based) of
   message m; secEndBit = bit position of the end of the section (for the "rest of the section" fields) *)
ReadParams(m, ps, j, p, secEndBit) ==
    IF j > Len(ps) THEN <<>>
    ELSE LET q == ps[j]
             n == IF q.nbits = 0 THEN secEndBit - p ELSE q.nbits
             bits == BitsAt(m, p, n)
             v == CASE q.type = "uint" -> [t |-> "uint", v |-> <<BitsToNat(bits)>>]
                    [] q.type = "bool" -> [t |-> "bool", v |-> <<bits[1]>>]
                    [] q.type = "bin" -> [t |-> "bin", v |-> bits]
                    [] q.type = "bytes" -> [t |-> "bytes", v |-> BitsToOctets(bits)]
                    [] q.type = "unexpanded_descriptors" -> [t |-> "ids", v |-> ReadDescs(m, p \div 8, (secEndBit - p) \div 16)]
                    [] OTHER -> [t |-> "data", v |-> <<>>]
         IN <<[name |-> q.name, val |-> v]>> \o ReadParams(m, ps, j + 1, p + n, secEndBit)

(* the sections of message m (edition e): sequence of [index, params] in order, absent section 2 left out;
   infoOnly: section 4 stops before the data, section 5 is not read *)
Sections(m, infoOnly) ==
    LET h == ParseHeader(m)
        e == h.ed
        sec(i, start, len) == [index |-> i, params |-> ReadParams(m, Params(e, i), 1, 8 * start, 8 * (start + len))]
        s4 == IF infoOnly
              THEN [index |-> 4, params |-> ReadParams(m, SubSeq(Params(e, 4), 1, 2), 1, 8 * h.s4, 8 * (h.s4 + h.l4))]
              ELSE sec(4, h.s4, h.l4)
    IN <<sec(0, 0, 8), sec(1, h.s1, h.l1)>> \o (IF h.has2 THEN <<sec(2, h.s2, h.l2)>> ELSE <<>>)
       \o <<sec(3, h.s3, h.l3), s4>> \o (IF infoOnly THEN <<>> ELSE <<sec(5, h.s4 + h.l4, 4)>>)

None == [t |-> "none", v |-> <<>>]      \* every value is a sequence of integers, so that answers are comparable
RECURSIVE FirstParam(_, _, _)
FirstParam(ps, name, j) == IF j > Len(ps) THEN None ELSE IF ps[j].name = name THEN ps[j].val ELSE FirstParam(ps, name, j + 1)
RECURSIVE LookupFrom(_, _, _, _)
LookupFrom(secs, k, name, i) ==       \* k = -99 : no explicit section
    IF i > Len(secs) THEN None
    ELSE IF (k = -99 \/ secs[i].index = k) /\ FirstParam(secs[i].params, name, 1) # None
         THEN FirstParam(secs[i].params, name, 1)
         ELSE LookupFrom(secs, k, name, i + 1)
Lookup(secs, k, name) == LookupFrom(secs, k, name, 1)

(* ---- parsing an expression -------------------------------------------------------- *)
IsBlank(c) == c \in {" ", "\t", "\n"}
RECURSIVE LStrip(_)
LStrip(s) == IF Len(s) > 0 /\ IsBlank(SubSeq(s, 1, 1)) THEN LStrip(SubSeq(s, 2, Len(s))) ELSE s
RECURSIVE RStrip(_)
RStrip(s) == IF Len(s) > 0 /\ IsBlank(SubSeq(s, Len(s), Len(s))) THEN RStrip(SubSeq(s, 1, Len(s) - 1)) ELSE s
Strip(s) == RStrip(LStrip(s))
RECURSIVE DotAt(_, _)
DotAt(s, i) == IF i > Len(s) THEN 0 ELSE IF SubSeq(s, i, i) = "." THEN i ELSE DotAt(s, i + 1)
Digit(c) == c \in {"0", "1", "2", "3", "4", "5", "6", "7", "8", "9"}
DigitVal(c) == CASE c = "0" -> 0 [] c = "1" -> 1 [] c = "2" -> 2 [] c = "3" -> 3 [] c = "4" -> 4
                 [] c = "5" -> 5 [] c = "6" -> 6 [] c = "7" -> 7 [] c = "8" -> 8 [] c = "9" -> 9
RECURSIVE NatOf(_, _, _)
NatOf(s, i, acc) == IF i > Len(s) THEN acc ELSE NatOf(s, i + 1, 10 * acc + DigitVal(SubSeq(s, i, i)))
AllDigits(s) == Len(s) > 0 /\ \A i \in 1..Len(s) : Digit(SubSeq(s, i, i))
(* an integer literal: optional sign, digits, blanks around it tolerated *)
IntLit(s0) == LET s == Strip(s0)
                  signed == Len(s) > 0 /\ SubSeq(s, 1, 1) \in {"-", "+"}
                  body == IF signed THEN SubSeq(s, 2, Len(s)) ELSE s
              IN IF AllDigits(body) THEN [ok |-> TRUE, v |-> IF signed /\ SubSeq(s, 1, 1) = "-" THEN 0 - NatOf(body, 1, 0) ELSE NatOf(body, 1, 0)]
                 ELSE [ok |-> FALSE, v |-> 0]

Parse(expr) ==
    LET s == Strip(expr) IN
    IF Len(s) = 0 \/ SubSeq(s, 1, 1) # "%" THEN [ok |-> FALSE, k |-> 0, name |-> ""]
    ELSE LET rest == SubSeq(s, 2, Len(s))
             d == DotAt(rest, 1)
         IN IF d = 0 THEN [ok |-> TRUE, k |-> -99, name |-> rest]
            ELSE LET lit == IntLit(SubSeq(rest, 1, d - 1)) IN
                 IF lit.ok THEN [ok |-> TRUE, k |-> lit.v, name |-> SubSeq(rest, d + 1, Len(rest))]
                 ELSE [ok |-> FALSE, k |-> 0, name |-> ""]

(* ---- the space explored -------------------------------------------------------------- *)
VARIABLES e, has2, info, pre, idx, name, suf
vars == <<e, has2, info, pre, idx, name, suf>>

AllNamesC == UNION {{Params(ed, i)[j].name : j \in 1..Len(Params(ed, i))} : ed \in EditionsQ, i \in 0..5} \cup ExtraNames

ASSUME TLCSet(34, AllNamesC)
AllNames == TLCGet(34)

Init == /\ e \in EditionsQ /\ has2 \in BOOLEAN /\ info \in BOOLEAN
        /\ pre \in Prefixes /\ idx \in Indexes /\ name \in AllNames /\ suf \in Suffixes
Next == UNCHANGED vars

(* the pool and its sections are computed once (see the note in Tables.tla on constant definitions) *)
ASSUME TLCSet(32, [ed \in EditionsQ |-> [h \in BOOLEAN |-> PoolQ(ed, h)]])
ASSUME TLCSet(33, [ed \in EditionsQ |-> [h \in BOOLEAN |-> [io \in BOOLEAN |-> Sections(TLCGet(32)[ed][h], io)]]])
Msg == TLCGet(32)[e][has2]
Expr == pre \o (IF idx = "none" THEN "" ELSE idx \o ".") \o name \o suf
P == Parse(Expr)
Secs == TLCGet(33)[e][has2][info]
SecsOf(io) == TLCGet(33)[e][has2][io]
Answer == IF P.ok THEN Lookup(Secs, P.k, P.name) ELSE None

(* ---- properties ------------------------------------------------------------------------ *)
(* the layout read from the definitions reproduces what Framing.tla wrote *)
V(k, n) == Lookup(SecsOf(FALSE), k, n)
LayoutsAgree ==
    /\ V(0, "edition").v = <<e>> /\ V(0, "length").v = <<Len(Msg)>>
    /\ V(1, "originating_centre").v = <<IdentQ.centre>>
    /\ V(1, "master_table_version").v = <<IdentQ.mversion>>
    /\ V(1, "data_category").v = <<IdentQ.category>>
    /\ V(1, "year").v = <<IF e = 4 THEN IdentQ.year ELSE IdentQ.yoc>>
    /\ V(1, "second").v = <<IdentQ.second>>
    /\ V(1, "is_section2_presents").v = <<IF has2 THEN 1 ELSE 0>>
    /\ V(3, "n_subsets").v = <<1>> /\ V(3, "unexpanded_descriptors").v = <<1001, 2001>>
    /\ V(5, "stop_signature").v = SEVENS
    /\ (e >= 3 => V(1, "originating_subcentre").v = <<IdentQ.subcentre>>)
    /\ (has2 => V(2, "local_bits").v = OctetsToBits(<<170, 85>>))

RejectWithoutPercent == (Len(Strip(Expr)) = 0 \/ SubSeq(Strip(Expr), 1, 1) # "%") => ~P.ok
RejectNonNumericIndex == (P.ok /\ idx # "none") => IntLit(idx).ok
(* without an index the answer is the one of the lowest-numbered section that has the name *)
FirstMatch ==
    (P.ok /\ P.k = -99) =>
        LET have == {i \in 1..Len(Secs) : FirstParam(Secs[i].params, P.name, 1) # None} IN
        IF have = {} THEN Answer = None
        ELSE Answer = FirstParam(Secs[CHOOSE i \in have : \A j \in have : i <= j].params, P.name, 1)
ExplicitSection ==
    (P.ok /\ P.k # -99) =>
        LET have == {i \in 1..Len(Secs) : Secs[i].index = P.k} IN
        IF have = {} THEN Answer = None ELSE Answer = FirstParam(Secs[CHOOSE i \in have : TRUE].params, P.name, 1)
(* metadata-only decoding gives the same answers for sections 0-3 *)
InfoEqualsFullOnSections0to3 ==
    (P.ok /\ (P.k \in 0..3 \/ (P.k = -99 /\ Lookup(SecsOf(FALSE), -99, P.name) # None
                                /\ \E i \in 1..4 : i <= Len(SecsOf(TRUE)) /\ SecsOf(TRUE)[i].index <= 3
                                                   /\ FirstParam(SecsOf(TRUE)[i].params, P.name, 1) # None)))
        => Lookup(SecsOf(TRUE), P.k, P.name) = Lookup(SecsOf(FALSE), P.k, P.name)

Case == [e |-> e, has2 |-> has2, info |-> info, expr |-> Expr, ok |-> P.ok, k |-> P.k, name |-> P.name, answer |-> Answer, msg |-> Msg]
Emit == PrintT(ToJson(Case))
=============================================================================
