------------------------------ MODULE FM94Tree ------------------------------
(***************************************************************************)
(* Behaviours of FM94 with the hierarchical view of every subset and the   *)
(* evaluation of every path that exists in it (C09, C16).                  *)
(***************************************************************************)
EXTENDS Query, FM94Gen

CONSTANTS PathDepth, SliceForms     \* SliceForms: set of slice records tried at every position of every path

ValueEntries(o) == o     \* every entry of `out` is one flat value

SubsetOut(s) == AllOut[s]
TreeOf(s) == Wire(P, SubsetOut(s))

(* all paths of subset s, each also with every slice form at every position *)
Variants(t) == {t} \cup {[t EXCEPT ![j].sl = f] : j \in 1..Len(t), f \in SliceForms}
PathsOf(s) == UNION {Variants(t) : t \in QueryPaths(TreeOf(s), PathDepth)}

(* C09 on the specification: the tree holds every flat value exactly once and gives the flat order back *)
TreeConserves == (Finished /\ err = "") => \A s \in 1..Len(AllOut) : FlatRecovered(P, SubsetOut(s)) /\ WiredCount(P, SubsetOut(s)) = Len(SubsetOut(s))

RECURSIVE SetToSeq(_)
SetToSeq(S) == IF S = {} THEN <<>> ELSE LET x == CHOOSE x \in S : TRUE IN <<x>> \o SetToSeq(S \ {x})

(* bare IDs of ordinary elements: labels of plain entries that never serve as an attribute or a meaning *)
AttrLabels(o) == {o[q].lab : q \in {x \in 1..Len(o) : o[x].link # 0}} \cup {o[o[q].mean].lab : q \in {x \in 1..Len(o) : o[x].mean # 0}}
(* a replication factor hangs on its replication like an attribute (it is reached with '.'): not ordinary either *)
FactorLabels(o) == {o[q].lab : q \in {x \in 1..Len(o) : P[o[x].at].k = "D"}}
OrdinaryIds(o) == {o[q].lab : q \in {x \in 1..Len(o) : o[x].plain}} \ (AttrLabels(o) \cup FactorLabels(o))
BareOf(s) == LET o == SubsetOut(s) ids == SetToSeq(OrdinaryIds(o)) IN [q \in 1..Len(ids) |-> [id |-> ids[q], at |-> BareId(o, ids[q])]]

SelectorForms == SliceForms \cup {All}
SelectorsOf == LET fs == SetToSeq(SelectorForms) IN
    [q \in 1..Len(fs) |-> [sl |-> fs[q], picked |-> SelectSubsets(fs[q], nsub)]]

TreeBehaviour ==
    [b |-> Behaviour, bare |-> [s \in 1..Len(AllOut) |-> BareOf(s)], selectors |-> SelectorsOf,
     trees |-> [s \in 1..Len(AllOut) |-> TreeOf(s)],
     queries |-> [s \in 1..Len(AllOut) |->
                    LET ps == SetToSeq(PathsOf(s)) IN
                    [q \in 1..Len(ps) |-> [path |-> ps[q], result |-> Result(TreeOf(s), ps[q]),
                                           \* the same path evaluated on EVERY subset (a query without '@' selector covers them all)
                                           every |-> IF Len(AllOut) > 1 THEN [s2 \in 1..Len(AllOut) |-> Result(TreeOf(s2), ps[q])] ELSE <<>>]]]]
EmitTree == (Finished /\ err = "") => PrintT(ToJson(TreeBehaviour))
=============================================================================
