------------------------------- MODULE Wiring -------------------------------
(***************************************************************************)
(* The hierarchical view of one subset (C07, C09, C16): from the program   *)
(* and the flat output of the walker (labels, factor values, links,        *)
(* meanings) to a tree of nodes                                            *)
(*    [k, id, idx, members, factor, attrs, nmem]                           *)
(*  k = "val"  : a value node; idx = its position in the flat data         *)
(*      "noval": operators without data, elements dropped by 221           *)
(*      "seq" / "fix" / "del" : sequence, fixed / delayed replication;     *)
(*               members of a replication are the nodes of all repetitions *)
(*               one after the other, nmem of them per repetition          *)
(* Attributes: an associated field hangs on the element that follows it; a *)
(* bitmap-driven value (quality information, substituted, statistics,      *)
(* replaced) hangs on the element its link designates - and also stays a   *)
(* member where it stands; 031021 / 008023 / 008024 hang on the attribute  *)
(* they explain.                                                           *)
(***************************************************************************)
EXTENDS FM94

Node(k, id, idx, members, factor, nmem) ==
    [k |-> k, id |-> id, idx |-> idx, members |-> members, factor |-> factor, attrs |-> <<>>, nmem |-> nmem]
ValNode(id, idx) == Node("val", id, idx, <<>>, <<>>, 0)
NoValNode(id) == Node("noval", id, 0, <<>>, <<>>, 0)

First(s) == SubSeq(s, 1, 1)
IsDroppable(ins) == ins.k = "E" /\ ~(XX(ins.id) \in 1..9 \/ XX(ins.id) = 31)
ValueOperators == {205, 222, 223, 224, 225, 232, 236, 237}

(* number of top-level members among program positions i..stop-1 *)
RECURSIVE TopCount(_, _, _)
TopCount(p, i, stop) ==
    IF i >= stop THEN 0
    ELSE LET ins == p[i] IN
         IF ins.k \in {"S", "R"} THEN 1 + TopCount(p, i + 1 + ins.span, stop)
         ELSE IF ins.k = "D" THEN 1 + TopCount(p, i + 2 + ins.span, stop)
         ELSE 1 + TopCount(p, i + 1, stop)

RECURSIVE WireRange(_, _, _, _, _)
RECURSIVE WireTimes(_, _, _, _, _, _)
(* st = [idx (next flat entry), dnp (221 count), skip (206 pending)]; result [nodes, st] *)
WireRange(p, o, i, stop, st) ==
    IF i >= stop THEN [nodes |-> <<>>, st |-> st]
    ELSE
    LET ins == p[i]
        dropped == st.dnp > 0 /\ IsDroppable(ins)
        st1 == IF st.dnp > 0 THEN [st EXCEPT !.dnp = @ - 1] ELSE st          \* 221 counts every member
        cont(node, st2, nexti) == LET r == WireRange(p, o, nexti, stop, st2) IN [nodes |-> <<node>> \o r.nodes, st |-> r.st]
    IN
    IF dropped THEN cont(NoValNode(IdStr(ins.id)), st1, i + 1)
    ELSE IF st1.skip /\ ins.k \in {"E", "S", "R", "D"} THEN      \* 206: one field stands for the whole descriptor
         cont(ValNode(o[st1.idx].lab, st1.idx), [st1 EXCEPT !.idx = @ + 1, !.skip = FALSE],
              i + 1 + ins.span + (IF ins.k = "D" THEN 1 ELSE 0))
    ELSE IF ins.k = "E" THEN
         IF First(o[st1.idx].lab) = "A"
         THEN cont(ValNode(o[st1.idx + 1].lab, st1.idx + 1), [st1 EXCEPT !.idx = @ + 2], i + 1)
         ELSE cont(ValNode(o[st1.idx].lab, st1.idx), [st1 EXCEPT !.idx = @ + 1], i + 1)
    ELSE IF ins.k = "O" THEN
         LET x == ins.id \div 1000 y == ins.id % 1000 IN
         IF x \in ValueOperators
         THEN cont(ValNode(o[st1.idx].lab, st1.idx), [st1 EXCEPT !.idx = @ + 1], i + 1)
         ELSE cont(NoValNode(IdStr(ins.id)),
                   [st1 EXCEPT !.dnp = IF x = 221 THEN y ELSE @, !.skip = IF x = 206 THEN TRUE ELSE @], i + 1)
    ELSE IF ins.k = "S" THEN
         LET body == WireRange(p, o, i + 1, i + 1 + ins.span, st1) IN
         cont(Node("seq", IdStr(ins.id), 0, body.nodes, <<>>, 0), body.st, i + 1 + ins.span)
    ELSE IF ins.k = "R" THEN
         LET body == WireTimes(p, o, i + 1, i + 1 + ins.span, st1, ins.cnt) IN
         cont(Node("fix", IdStr(ins.id), 0, body.nodes, <<>>, TopCount(p, i + 1, i + 1 + ins.span)), body.st, i + 1 + ins.span)
    ELSE IF ins.k = "D" THEN
         LET fidx == st1.idx
             n == BitsToNat(o[fidx].v[1].raw)
             body == WireTimes(p, o, i + 2, i + 2 + ins.span, [st1 EXCEPT !.idx = @ + 1], n)
         IN cont(Node("del", IdStr(ins.id), 0, body.nodes, <<ValNode(o[fidx].lab, fidx)>>, TopCount(p, i + 2, i + 2 + ins.span)),
                 body.st, i + 2 + ins.span)
    ELSE cont(NoValNode(IdStr(ins.id)), st1, i + 1)

WireTimes(p, o, i, stop, st, n) ==
    IF n = 0 THEN [nodes |-> <<>>, st |-> st]
    ELSE LET one == WireRange(p, o, i, stop, st)
             rest == WireTimes(p, o, i, stop, one.st, n - 1)
         IN [nodes |-> one.nodes \o rest.nodes, st |-> rest.st]

(* ---- attributes ------------------------------------------------------------------ *)
Leaf(o, k) == ValNode(o[k].lab, k)
MeaningOf(o, k) == IF o[k].mean > 0 THEN <<Leaf(o, o[k].mean)>> ELSE <<>>
AttrNode(o, k) == [ValNode(o[k].lab, k) EXCEPT !.attrs = MeaningOf(o, k)]
(* flat positions attached to the value at position j, in flat order *)
AttachedTo(o, j) == SelectSeq([k \in 1..Len(o) |-> k],
                              LAMBDA k : o[k].link = j \/ (k = j - 1 /\ First(o[k].lab) = "A"))
AttrsOf(o, j) == MeaningOf(o, j) \o [q \in 1..Len(AttachedTo(o, j)) |-> AttrNode(o, AttachedTo(o, j)[q])]

RECURSIVE Attach(_, _)
Attach(o, node) ==
    [node EXCEPT !.attrs = IF node.k = "val" THEN AttrsOf(o, node.idx) ELSE <<>>,
                 !.members = [q \in 1..Len(node.members) |-> Attach(o, node.members[q])],
                 !.factor = [q \in 1..Len(node.factor) |-> Attach(o, node.factor[q])]]

Wire(p, o) ==
    LET r == WireRange(p, o, 1, Len(p) + 1, [idx |-> 1, dnp |-> 0, skip |-> FALSE])
    IN [q \in 1..Len(r.nodes) |-> Attach(o, r.nodes[q])]
WiredCount(p, o) == WireRange(p, o, 1, Len(p) + 1, [idx |-> 1, dnp |-> 0, skip |-> FALSE]).st.idx - 1

(* ---- conservation: every flat value exactly once (C09) ------------------------------ *)
RECURSIVE FlatOf(_)
RECURSIVE FlatOfSeq(_, _)
(* flat positions in the order the tree holds them: associated fields before their owner, factor before
   the members; bitmap-driven attributes are not repeated (they are members where they stand) *)
FlatOf(node) ==
    IF node.k = "val"
    THEN LET assoc == SelectSeq(node.attrs, LAMBDA a : First(a.id) = "A") IN
         [q \in 1..Len(assoc) |-> assoc[q].idx] \o <<node.idx>>
    ELSE FlatOfSeq(node.factor, 1) \o FlatOfSeq(node.members, 1)
FlatOfSeq(ns, q) == IF q > Len(ns) THEN <<>> ELSE FlatOf(ns[q]) \o FlatOfSeq(ns, q + 1)

FlatRecovered(p, o) == FlatOfSeq(Wire(p, o), 1) = [q \in 1..Len(o) |-> q]
=============================================================================
