------------------------------- MODULE Column -------------------------------
(***************************************************************************)
(* One compressed column (FM-94 regulation 94.6.3 (2)): the values of one  *)
(* element in all subsets are stored as                                    *)
(*     minimum (w bits) | width d of the differences (6 bits) | d bits per *)
(*     subset                                                              *)
(* d = 0 when all subsets agree; an all-ones difference marks a missing    *)
(* entry (for d = 1 the difference 1 is "all ones", so a one-bit           *)
(* difference can only separate present-and-equal from missing); character *)
(* columns use a zero minimum and d = the number of octets.                *)
(*                                                                         *)
(* A column is a sequence of [miss, raw] (raw = the w-bit pattern, all     *)
(* ones for a missing entry).  The writer (produce form) and the reader    *)
(* (consume form) are written separately; the model below checks          *)
(* exhaustively that the reader inverts the writer for EVERY legal width,  *)
(* not only the smallest one.                                              *)
(***************************************************************************)
EXTENDS Naturals, Integers, Sequences, Bits

RECURSIVE MinPat(_, _, _)
MinPat(vs, i, best) ==       \* lexicographic minimum of the non-missing patterns
    IF i > Len(vs) THEN best
    ELSE IF vs[i].miss THEN MinPat(vs, i + 1, best)
    ELSE IF best = <<>> \/ BLess(vs[i].raw, best) THEN MinPat(vs, i + 1, vs[i].raw) ELSE MinPat(vs, i + 1, best)
RECURSIVE MaxPat(_, _, _)
MaxPat(vs, i, best) ==
    IF i > Len(vs) THEN best
    ELSE IF vs[i].miss THEN MaxPat(vs, i + 1, best)
    ELSE IF best = <<>> \/ BLess(best, vs[i].raw) THEN MaxPat(vs, i + 1, vs[i].raw) ELSE MaxPat(vs, i + 1, best)

AllEqual(vs) == \A i \in 1..Len(vs) : vs[i] = vs[1]
AllMissing(vs) == \A i \in 1..Len(vs) : vs[i].miss

(* smallest difference width that can hold range r (a bit pattern) next to the all-ones marker *)
DMin(r) == LET L == SignificantBits(r) IN
           IF L = 0 THEN 1 ELSE IF IsAllOnes(LowBits(r, L)) THEN L + 1 ELSE L

RangeOf(vs) == BSub(MaxPat(vs, 1, <<>>), MinPat(vs, 1, <<>>))

(* the legal difference widths offered to the writer: the smallest and up to `slack` more;
   the width itself is a 6-bit field, so a range that needs more than 63 bits cannot be compressed *)
LegalWidths(vs, slack) ==
    IF AllMissing(vs) \/ AllEqual(vs) THEN {0}
    ELSE LET d0 == DMin(RangeOf(vs)) IN {d \in d0..(d0 + slack) : d <= 63}

(* bits of a numeric / code column written with d difference bits *)
NumColumnBits(w, vs, d) ==
    IF AllMissing(vs) THEN Ones(w) \o UintBits(0, 6)
    ELSE IF AllEqual(vs) THEN vs[1].raw \o UintBits(0, 6)
    ELSE LET mn == MinPat(vs, 1, <<>>)
             diff(i) == IF vs[i].miss THEN Ones(d) ELSE LowBits(ZeroExtend(BSub(vs[i].raw, mn), d), d)
             RECURSIVE Cat(_)
             Cat(i) == IF i > Len(vs) THEN <<>> ELSE diff(i) \o Cat(i + 1)
         IN mn \o UintBits(d, 6) \o Cat(1)

StrColumnBits(w, vs) ==
    IF AllMissing(vs) THEN Ones(w) \o UintBits(0, 6)
    ELSE IF AllEqual(vs) THEN vs[1].raw \o UintBits(0, 6)
    ELSE LET RECURSIVE Cat(_)
             Cat(i) == IF i > Len(vs) THEN <<>> ELSE vs[i].raw \o Cat(i + 1)
         IN Zeros(w) \o UintBits(w \div 8, 6) \o Cat(1)

(* ---- readers: Get(p, n) returns n bits after position p of whatever is being read ---------- *)
(* result [vs, n (bits consumed), ok, d]; t = "ref" (sign-magnitude reference definitions) has no
   missing value; codeRecheck: a code/flag value that comes out as all ones is missing *)
RdNumColumn(Get(_, _), ns, t, w, p, codeRecheck) ==
    LET mn == Get(p, w)
        d == BitsToNat(Get(p + w, 6))
        mnMissing == t # "ref" /\ w > 1 /\ IsAllOnes(mn)
        one(i) ==
            LET df == Get(p + w + 6 + (i - 1) * d, d)
                dm == (d > 1 /\ IsAllOnes(df)) \/ (d = 1 /\ df = <<1>>)
                W == IF d > w THEN d ELSE w                      \* a difference may be written wider than the field
                sum == BAdd(ZeroExtend(mn, W), ZeroExtend(df, W))   \* W + 1 bits
                raw == IF dm THEN Ones(w) ELSE LowBits(sum, w)
            IN [miss |-> dm \/ (codeRecheck /\ w > 1 /\ IsAllOnes(raw)), raw |-> raw,
                ovf |-> ~dm /\ ~IsAllZeros(SubSeq(sum, 1, W + 1 - w))]
    IN IF d = 0 \/ mnMissing
       THEN [vs |-> [i \in 1..ns |-> [miss |-> mnMissing, raw |-> mn]], n |-> w + 6, ok |-> d = 0, d |-> d]
       ELSE [vs |-> [i \in 1..ns |-> [miss |-> one(i).miss, raw |-> one(i).raw]], n |-> w + 6 + ns * d,
             ok |-> \A i \in 1..ns : ~one(i).ovf, d |-> d]

RdStrColumn(Get(_, _), ns, w, p) ==
    LET mn == Get(p, w)
        d == BitsToNat(Get(p + w, 6))       \* octets
    IN IF d = 0 THEN [vs |-> [i \in 1..ns |-> [miss |-> IsAllOnes(mn), raw |-> mn]], n |-> w + 6, ok |-> TRUE, d |-> 0]
       ELSE [vs |-> [i \in 1..ns |-> LET r == Get(p + w + 6 + (i - 1) * 8 * d, 8 * d) IN [miss |-> IsAllOnes(r), raw |-> r]],
             \* a foreign encoder may carry the strings in fewer octets than the element has (the sample corpus does):
             \* the entries are then those d octets
             n |-> w + 6 + ns * 8 * d, ok |-> IsAllZeros(mn) /\ 8 * d <= w, d |-> d]
=============================================================================
