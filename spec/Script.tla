------------------------------- MODULE Script -------------------------------
(***************************************************************************)
(* Script preprocessing (C18): every ${expr} outside string literals and   *)
(* comments is replaced by a variable name; everything else is untouched.  *)
(*                                                                         *)
(* Two independent definitions are compared:                               *)
(*  (i)  the REFERENCE semantics on a script given as a sequence of        *)
(*       fragments - code text, '...' and "..." literals, # comments (to   *)
(*       the end of the line), embedded expressions ${ e }, a lone $ -     *)
(*       whose contents may contain #, $, {, the other quote and ${x};     *)
(*  (ii) a CHARACTER AUTOMATON over the concatenated text with the states  *)
(*       idle / ' / " / # / ${ .                                           *)
(* The variable for an expression is PBK_<n>, n counting distinct          *)
(* whitespace-trimmed expressions in order of first appearance.            *)
(*                                                                         *)
(* The second part states the documented nesting levels of query results   *)
(* on bracket-token sequences: level 4 is the full nesting (subsets, then  *)
(* replications), level 2 flattens inside each subset, level 1 is one flat *)
(* list, level 0 its first element or None.                                *)
(***************************************************************************)
EXTENDS Naturals, Integers, Sequences, TLC, Json, FiniteSets

CONSTANTS MaxFrags,      \* scripts of up to MaxFrags fragments
          CodePool, QuotePool, CommentPool, ExprPool,     \* sets of strings the fragments are drawn from
          What,          \* "scripts" | "levels"
          Recorded       \* "levels": sequence of [l4, l2, l1, l0] token sequences recorded from the implementation

(* ---- fragments ----------------------------------------------------------------- *)
Frags ==  {[k |-> "code", s |-> c] : c \in CodePool}
     \cup {[k |-> "sq", s |-> c] : c \in {q \in QuotePool : \A i \in 1..Len(q) : SubSeq(q, i, i) # "'"}}
     \cup {[k |-> "dq", s |-> c] : c \in {q \in QuotePool : \A i \in 1..Len(q) : SubSeq(q, i, i) # "\""}}
     \cup {[k |-> "comment", s |-> c] : c \in CommentPool}
     \cup {[k |-> "embed", s |-> c] : c \in ExprPool}
     \cup {[k |-> "dollar", s |-> ""]}

Text(f) == CASE f.k = "code" -> f.s
             [] f.k = "sq" -> "'" \o f.s \o "'"
             [] f.k = "dq" -> "\"" \o f.s \o "\""
             [] f.k = "comment" -> "#" \o f.s \o "\n"
             [] f.k = "embed" -> "${" \o f.s \o "}"
             [] f.k = "dollar" -> "$"

(* a lone $ must stay lone: what follows may not start with { *)
Compatible(fs) == \A i \in 1..(Len(fs) - 1) :
    fs[i].k = "dollar" => ~(fs[i + 1].k = "code" /\ Len(fs[i + 1].s) > 0 /\ SubSeq(fs[i + 1].s, 1, 1) = "{")

IsBlank(c) == c \in {" ", "\t", "\n"}
RECURSIVE LStrip(_)
LStrip(s) == IF Len(s) > 0 /\ IsBlank(SubSeq(s, 1, 1)) THEN LStrip(SubSeq(s, 2, Len(s))) ELSE s
RECURSIVE RStrip(_)
RStrip(s) == IF Len(s) > 0 /\ IsBlank(SubSeq(s, Len(s), Len(s))) THEN RStrip(SubSeq(s, 1, Len(s) - 1)) ELSE s
Strip(s) == RStrip(LStrip(s))

VarName(n) == "PBK_" \o ToString(n)

(* ---- (i) reference semantics ------------------------------------------------------ *)
RECURSIVE IndexOf(_, _, _)
IndexOf(seq, x, i) == IF i > Len(seq) THEN 0 ELSE IF seq[i] = x THEN i ELSE IndexOf(seq, x, i + 1)
RECURSIVE RefFrom(_, _, _, _)
(* result [out, exprs] : output text and the distinct trimmed expressions in order of first appearance *)
RefFrom(fs, i, out, exprs) ==
    IF i > Len(fs) THEN [out |-> out, exprs |-> exprs]
    ELSE IF fs[i].k = "embed"
         THEN LET e == Strip(fs[i].s)
                  at == IndexOf(exprs, e, 1)
              IN IF at = 0 THEN RefFrom(fs, i + 1, out \o VarName(Len(exprs)), Append(exprs, e))
                 ELSE RefFrom(fs, i + 1, out \o VarName(at - 1), exprs)
         ELSE RefFrom(fs, i + 1, out \o Text(fs[i]), exprs)
Ref(fs) == RefFrom(fs, 1, "", <<>>)

RECURSIVE Concat(_, _)
Concat(fs, i) == IF i > Len(fs) THEN "" ELSE Text(fs[i]) \o Concat(fs, i + 1)

(* ---- (ii) the character automaton --------------------------------------------------- *)
RECURSIVE Auto(_, _, _, _, _, _)
Auto(s, i, st, out, cur, exprs) ==
    IF i > Len(s) THEN [out |-> out, exprs |-> exprs]
    ELSE LET c == SubSeq(s, i, i) IN
         IF st = "${" THEN
            (IF c = "}" THEN LET e == Strip(cur) at == IndexOf(exprs, e, 1) IN
                             IF at = 0 THEN Auto(s, i + 1, "", out \o VarName(Len(exprs)), "", Append(exprs, e))
                             ELSE Auto(s, i + 1, "", out \o VarName(at - 1), "", exprs)
             ELSE Auto(s, i + 1, st, out, cur \o c, exprs))
         ELSE IF c = "'" \/ c = "\"" THEN
            Auto(s, i + 1, IF st = c THEN "" ELSE IF st = "" THEN c ELSE st, out \o c, cur, exprs)
         ELSE IF c = "$" /\ st = "" THEN
            (IF i + 1 <= Len(s) /\ SubSeq(s, i + 1, i + 1) = "{" THEN Auto(s, i + 2, "${", out, "", exprs)
             ELSE Auto(s, i + 1, st, out \o c, cur, exprs))
         ELSE IF c = "#" /\ st = "" THEN Auto(s, i + 1, "#", out \o c, cur, exprs)
         ELSE IF c = "\n" /\ st = "#" THEN Auto(s, i + 1, "", out \o c, cur, exprs)
         ELSE Auto(s, i + 1, st, out \o c, cur, exprs)
Run(s) == Auto(s, 1, "", "", "", <<>>)

(* ---- the space of scripts -------------------------------------------------------------- *)
VARIABLES frags, rid
vars == <<frags, rid>>

Init == IF What = "scripts" THEN frags = <<>> /\ rid = 0
        ELSE frags = <<>> /\ rid \in 1..Len(Recorded)
Extend == /\ What = "scripts" /\ Len(frags) < MaxFrags
          /\ \E f \in Frags : frags' = Append(frags, f) /\ Compatible(frags')
          /\ UNCHANGED rid
Next == Extend

Script == Concat(frags, 1)

AutomatonAgreesWithReference == What = "scripts" => Run(Script) = Ref(frags)
(* the same (trimmed) expression always gets the same name, different ones different names *)
NamesFollowExpressions ==
    What = "scripts" =>
        LET r == Ref(frags) IN \A i, j \in 1..Len(r.exprs) : (r.exprs[i] = r.exprs[j]) <=> (i = j)
(* nothing but embedded expressions changes: with no embed fragment the output is the input *)
OnlyEmbedsChange ==
    (What = "scripts" /\ \A i \in 1..Len(frags) : frags[i].k # "embed") => Ref(frags).out = Script /\ Ref(frags).exprs = <<>>
(* a script needs only metadata exactly when every (trimmed) expression starts with % *)
MetadataOnly(exprs) == \A i \in 1..Len(exprs) : Len(exprs[i]) > 0 /\ SubSeq(exprs[i], 1, 1) = "%"

EmitScript == What = "scripts" =>
    PrintT(ToJson([script |-> Script, out |-> Ref(frags).out, exprs |-> Ref(frags).exprs, mdonly |-> MetadataOnly(Ref(frags).exprs),
                   kinds |-> [i \in 1..Len(frags) |-> frags[i].k]]))

(***************************************************************************)
(* Nesting levels on token sequences: -2 = "[", -3 = "]", -1 = None,       *)
(* n >= 0 = the n-th distinct value.                                       *)
(***************************************************************************)
Open == -2
Close == -3
RECURSIVE LevelFilter(_, _, _, _)
(* keep brackets only while the depth (before an opening / after a closing bracket) is below `keep` *)
LevelFilter(t, i, depth, keep) ==
    IF i > Len(t) THEN <<>>
    ELSE IF t[i] = Open THEN (IF depth < keep THEN <<Open>> ELSE <<>>) \o LevelFilter(t, i + 1, depth + 1, keep)
    ELSE IF t[i] = Close THEN (IF depth - 1 < keep THEN <<Close>> ELSE <<>>) \o LevelFilter(t, i + 1, depth - 1, keep)
    ELSE <<t[i]>> \o LevelFilter(t, i + 1, depth, keep)
Level2Of(l4) == LevelFilter(l4, 1, 0, 2)        \* [[...leaves of subset 1...], [...subset 2...]]
Level1Of(l4) == LevelFilter(l4, 1, 0, 1)        \* [all leaves]
Leaves(t) == SelectSeq(t, LAMBDA x : x # Open /\ x # Close)
Level0Of(l4) == IF Leaves(l4) = <<>> THEN <<-1>> ELSE <<Leaves(l4)[1]>>

Rec == Recorded[rid]
LevelsConsistent ==
    What = "levels" =>
        /\ Rec.l2 = Level2Of(Rec.l4)                 \* level 2 is the per-subset flattening of level 4
        /\ Rec.l1 = Level1Of(Rec.l2)                 \* level 1 is the concatenation of level 2
        /\ Rec.l0 = Level0Of(Rec.l1)                 \* level 0 is its first element or None
EmitLevels == What = "levels" =>
    PrintT(ToJson([rid |-> rid, l2 |-> Rec.l2 = Level2Of(Rec.l4), l1 |-> Rec.l1 = Level1Of(Rec.l2), l0 |-> Rec.l0 = Level0Of(Rec.l1)]))
=============================================================================
