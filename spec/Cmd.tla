-------------------------------- MODULE Cmd ---------------------------------
(***************************************************************************)
(* The command line as a function from an invocation to what it prints and *)
(* writes, in terms of the library operations the other specifications     *)
(* define (decoding: FM94 / Stream, renderings: Wiring, queries: Query /    *)
(* MdQuery, scripts: Script).  It is the dispatch that is specified here:   *)
(* which messages of which file are processed, in which mode, rendered in   *)
(* which format, and where processing stops.                                *)
(*                                                                         *)
(* A message of the pool is known by two attributes: its edition and        *)
(* whether its stop signature is damaged (`bad`: a full decode fails with   *)
(* the library error, a metadata-only decode does not look that far).       *)
(* A file is a sequence of pool messages; an invocation names 1..2 files.   *)
(*                                                                         *)
(* Output items (the driver turns each into text through the library API):  *)
(*   [k |-> "render", fmt, m]      one message in one of the four formats   *)
(*   [k |-> "info", m, tmpl]       metadata-only flat text (+ the template) *)
(*   [k |-> "count", f, n]         "<file>: <n>"                            *)
(*   [k |-> "piece", f, i, m]      file <f>.<i> holding exactly message m   *)
(*   [k |-> "name", f]             the file name on a line of its own       *)
(*   [k |-> "md", m]               the value of the metadata query          *)
(*   [k |-> "dq", fmt, m]          the data query result in a format        *)
(*   [k |-> "script", m, lvl]      what the script prints for message m     *)
(*   [k |-> "written", m, old, pre] the output file of `encode`: what was    *)
(*                                 there before (kept only with --append),  *)
(*                                 the preamble, then message m             *)
(* status "ok" | "error": the library error is reported on stderr (no       *)
(* traceback) and nothing more is printed.                                 *)
(***************************************************************************)
EXTENDS Naturals, Integers, Sequences, FiniteSets, TLC, Json

CONSTANTS Pool,       \* sequence of [ed |-> 2..4, bad |-> BOOLEAN]
          FileSet,    \* set of files, each a non-empty sequence of pool indices
          Commands,   \* subset of {"decode", "info", "split", "query", "script"}
          StreamOpts  \* FALSE: decode is enumerated without --continue-on-error and --filter (the format dispatch only)

VARIABLES inv, out, status
vars == <<inv, out, status>>

Fmt(json, attributed) == IF attributed THEN (IF json THEN "nested_json" ELSE "nested_text")
                         ELSE (IF json THEN "flat_json" ELSE "flat_text")

(* the filter of the driver: ${%edition} == 4 *)
Matches(m) == Pool[m].ed = 4

(* scanning a file: which messages are delivered, and whether the scan ends in the library error.  The filter is
   evaluated on a metadata-only decode (which a damaged stop signature does not disturb); a message that passes it
   is then decoded in full unless the scan itself is metadata-only *)
RECURSIVE Scan(_, _, _, _, _)
Scan(file, i, info, cont, filt) ==
    IF i > Len(file) THEN [ms |-> <<>>, ok |-> TRUE]
    ELSE LET m == file[i]
             rest == Scan(file, i + 1, info, cont, filt)
         IN IF filt /\ ~Matches(m) THEN rest
            ELSE IF Pool[m].bad /\ ~info
                 THEN (IF cont THEN rest ELSE [ms |-> <<>>, ok |-> FALSE])
            ELSE [ms |-> <<m>> \o rest.ms, ok |-> rest.ok]
(* note: when the scan fails at message i, the messages before i have been delivered already *)
RECURSIVE Delivered(_, _, _, _, _)
Delivered(file, i, info, cont, filt) ==
    IF i > Len(file) THEN <<>>
    ELSE LET m == file[i] IN
         IF filt /\ ~Matches(m) THEN Delivered(file, i + 1, info, cont, filt)
         ELSE IF Pool[m].bad /\ ~info THEN (IF cont THEN Delivered(file, i + 1, info, cont, filt) ELSE <<>>)
         ELSE <<m>> \o Delivered(file, i + 1, info, cont, filt)
ScanOK(file, info, cont, filt) == Scan(file, 1, info, cont, filt).ok

Map(s, F(_)) == [i \in 1..Len(s) |-> F(s[i])]
RECURSIVE Flat(_)
Flat(ss) == IF ss = <<>> THEN <<>> ELSE Head(ss) \o Flat(Tail(ss))

(* the output of one file under one command; [items, ok] *)
DecodeFile(o, f) ==
    LET file == inv.files[f] fmt == Fmt(o.json, o.attributed) IN
    IF o.multi
    THEN [items |-> [i \in 1..Len(Delivered(file, 1, FALSE, o.cont, o.filt)) |-> [k |-> "render", fmt |-> fmt, m |-> Delivered(file, 1, FALSE, o.cont, o.filt)[i]]],
          ok |-> ScanOK(file, FALSE, o.cont, o.filt)]
    ELSE \* one message per file: the first one; continue-on-error and the filter have no meaning here
         IF Pool[file[1]].bad THEN [items |-> <<>>, ok |-> FALSE]
         ELSE [items |-> <<[k |-> "render", fmt |-> fmt, m |-> file[1]]>>, ok |-> TRUE]

InfoFile(o, f) ==
    LET file == inv.files[f] IN
    IF o.multi THEN [items |-> [i \in 1..Len(file) |-> [k |-> "info", m |-> file[i], tmpl |-> o.tmpl]], ok |-> TRUE]
    ELSE IF o.count THEN [items |-> <<[k |-> "count", f |-> f, n |-> Len(file)]>>, ok |-> TRUE]
    ELSE [items |-> <<[k |-> "info", m |-> file[1], tmpl |-> o.tmpl]>>, ok |-> TRUE]

SplitFile(o, f) ==
    LET file == inv.files[f] IN
    [items |-> [i \in 1..Len(file) |-> [k |-> "piece", f |-> f, i |-> i - 1, m |-> file[i]]], ok |-> TRUE]

QueryFile(o, f) ==
    LET m == inv.files[f][1] IN
    IF o.md THEN [items |-> <<[k |-> "name", f |-> f], [k |-> "md", m |-> m]>>, ok |-> TRUE]
    ELSE IF Pool[m].bad THEN [items |-> <<>>, ok |-> FALSE]
    ELSE IF o.json THEN [items |-> <<[k |-> "dq", fmt |-> IF o.nested THEN "nested_json" ELSE "flat_json", m |-> m]>>, ok |-> TRUE]
    ELSE [items |-> <<[k |-> "name", f |-> f], [k |-> "dq", fmt |-> "flat_text", m |-> m]>>, ok |-> TRUE]

(* the nesting level of data query results: the -n option if given (-1: not given), else the pragma in the first lines of the
   script (-1: none), else 1 *)
EffLevel(o) == IF o.lvl # -1 THEN o.lvl ELSE IF o.pragma # -1 THEN o.pragma ELSE 1

ScriptFile(o, f) ==
    LET m == inv.files[f][1] IN
    \* a script whose queries all start with % needs metadata only: a damaged stop signature goes unnoticed
    IF Pool[m].bad /\ ~o.md THEN [items |-> <<>>, ok |-> FALSE]
    ELSE [items |-> <<[k |-> "script", m |-> m, lvl |-> EffLevel(o), md |-> o.md]>>, ok |-> TRUE]

(* encode: the input is the rendering of the first message of the file in the format the two flags name; the output file holds
   the preamble and the message, after what it held before when --append is given and instead of it otherwise *)
EncodeFile(o, f) ==
    LET m == inv.files[f][1] IN
    [items |-> <<[k |-> "written", m |-> m, fmt |-> Fmt(o.json, o.attributed), old |-> o.exists /\ o.append, pre |-> o.pre]>>, ok |-> TRUE]

FileOut(f) ==
    CASE inv.cmd = "encode" -> EncodeFile(inv.o, f)
      [] inv.cmd = "decode" -> DecodeFile(inv.o, f)
      [] inv.cmd = "info" -> InfoFile(inv.o, f)
      [] inv.cmd = "split" -> SplitFile(inv.o, f)
      [] inv.cmd = "query" -> QueryFile(inv.o, f)
      [] inv.cmd = "script" -> ScriptFile(inv.o, f)

(* files are processed in order; the first failure ends the command *)
RECURSIVE Upto(_)
Upto(f) == IF f > Len(inv.files) THEN [items |-> <<>>, ok |-> TRUE]
           ELSE LET r == FileOut(f) IN
                IF ~r.ok THEN r
                ELSE LET t == Upto(f + 1) IN [items |-> r.items \o t.items, ok |-> t.ok]

Opts(c) ==
    CASE c = "decode" -> {o \in [json : BOOLEAN, attributed : BOOLEAN, multi : BOOLEAN, cont : BOOLEAN, filt : BOOLEAN] :
                              StreamOpts \/ (~o.cont /\ ~o.filt)}
      [] c = "info" -> {o \in [multi : BOOLEAN, count : BOOLEAN, tmpl : BOOLEAN, cont : BOOLEAN] : ~(o.multi /\ o.count) /\ (o.count => ~o.tmpl)}
      [] c = "split" -> [cont : BOOLEAN]
      [] c = "query" -> {o \in [md : BOOLEAN, json : BOOLEAN, nested : BOOLEAN] : (o.nested => o.json) /\ (o.md => ~o.json)}
      [] c = "script" -> [md : BOOLEAN, lvl : {-1, 0, 1, 2, 4}, pragma : {-1, 0, 2, 4}]
      [] c = "encode" -> [json : BOOLEAN, attributed : BOOLEAN, append : BOOLEAN, pre : BOOLEAN, exists : BOOLEAN]

FileLists == {<<a>> : a \in FileSet} \cup {<<a, b>> : a \in FileSet, b \in FileSet}

Init == /\ \E c \in Commands : \E o \in Opts(c) : \E fs \in FileLists :
              /\ inv = [cmd |-> c, o |-> o, files |-> fs]
              /\ (c = "encode" => Len(fs) = 1 /\ ~Pool[fs[1][1]].bad)       \* one input, and there is a rendering of it
        /\ out = <<>> /\ status = "new"
Run == /\ status = "new"
       /\ LET r == Upto(1) IN out' = r.items /\ status' = IF r.ok THEN "ok" ELSE "error"
       /\ UNCHANGED inv
Next == Run
Spec == Init /\ [][Next]_vars

Done == status # "new"
AllFiles == {inv.files[f] : f \in 1..Len(inv.files)}
NoBad == \A file \in AllFiles : \A i \in 1..Len(file) : ~Pool[file[i]].bad

(* ---- properties of the dispatch ---------------------------------------------------------------- *)
TypeOK == status \in {"new", "ok", "error"}
(* without damage every command succeeds *)
ValidInputNeverFails == (Done /\ NoBad) => status = "ok"
(* metadata-only commands never notice a damaged stop signature *)
InfoAndSplitNeverFail == (Done /\ inv.cmd \in {"info", "split"}) => status = "ok"
(* split: the pieces of a file are its messages, in order, each exactly once *)
SplitPiecesAreTheMessages ==
    (Done /\ inv.cmd = "split") =>
        \A f \in 1..Len(inv.files) :
            LET ps == SelectSeq(out, LAMBDA x : x.f = f) IN
            /\ Len(ps) = Len(inv.files[f])
            /\ \A i \in 1..Len(ps) : ps[i].m = inv.files[f][i] /\ ps[i].i = i - 1
(* decode without -m looks at the first message of each file only, whatever the stream options say *)
SingleModeIgnoresStreamOptions ==
    (Done /\ inv.cmd = "decode" /\ ~inv.o.multi /\ status = "ok") =>
        /\ Len(out) = Len(inv.files)
        /\ \A f \in 1..Len(inv.files) : out[f].m = inv.files[f][1]
(* the format is decided by the two flags alone *)
FormatFromFlags ==
    (Done /\ inv.cmd = "decode") => \A i \in 1..Len(out) : out[i].fmt = Fmt(inv.o.json, inv.o.attributed)
(* with a filter only matching messages are printed; with continue-on-error only damaged ones are left out *)
FilterAndContinue ==
    (Done /\ inv.cmd = "decode" /\ inv.o.multi) =>
        /\ inv.o.filt => \A i \in 1..Len(out) : Matches(out[i].m)
        /\ \A i \in 1..Len(out) : ~Pool[out[i].m].bad
        /\ (inv.o.cont => status = "ok")
        /\ (status = "ok" /\ ~inv.o.filt) =>
               Len(out) = Len(SelectSeq(Flat(inv.files), LAMBDA m : ~Pool[m].bad))

(* encode keeps what the output file held exactly when it existed and --append was given *)
AppendKeepsOld == (Done /\ inv.cmd = "encode") => (Len(out) = 1 /\ (out[1].old <=> (inv.o.exists /\ inv.o.append)))

(* the option outranks the pragma, the pragma the default *)
ScriptLevelPrecedence == (Done /\ inv.cmd = "script" /\ status = "ok") =>
    \A i \in 1..Len(out) : out[i].lvl = (IF inv.o.lvl # -1 THEN inv.o.lvl ELSE IF inv.o.pragma # -1 THEN inv.o.pragma ELSE 1)

Emit == Done => PrintT(ToJson([inv |-> inv, out |-> out, status |-> status]))
=============================================================================
