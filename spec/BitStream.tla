----------------------------- MODULE BitStream -----------------------------
(***************************************************************************)
(* The bit-level writer and reader of pybufrkit (bitops.py) as a state     *)
(* machine: a write phase appends typed fields to a bit stream (and may    *)
(* overwrite an earlier unsigned field in place), the stream is padded to  *)
(* whole octets, then a read phase reads the fields back with the same     *)
(* types and widths, and finally a read past the end is attempted.         *)
(*                                                                         *)
(* Field contents are bit PATTERNS, so widths 1..64 need no arithmetic:    *)
(*   uint  n : the n-bit pattern (big endian)                              *)
(*   int   n : sign bit, then the (n-1)-bit magnitude                      *)
(*   bool    : one bit                                                     *)
(*   bin   n : n bits given as a string of 0/1 characters                  *)
(*   bytes k : k octets; shorter input is padded with spaces (32), longer  *)
(*             input is truncated                                          *)
(* One action per public method of BitWriter / BitReader.                  *)
(***************************************************************************)
EXTENDS Bits, TLC, Json

CONSTANTS
    Widths,       \* widths offered to uint / int / setuint fields
    LeadIns,      \* lengths of the bin lead-in that makes the field unaligned
    MaxFields,    \* number of field steps between lead-in and sentinel
    Kinds,        \* subset of {"uint","int","set","bool","bin","bytes","skip","refuse"}
    ByteLens,     \* declared lengths (octets) of bytes fields
    ByteInputs,   \* input octet strings offered to bytes fields
    UintClasses   \* value classes (0..4) offered to unsigned writes

VARIABLES
    bits,     \* the stream
    layout,   \* Seq of [typ, n, start, v] : what a reader should find, in stream order
    ops,      \* execution log for the conformance driver (history variable)
    stage,    \* "lead" | "fields" | "sentinel" | "pad" | "read" | "past" | "done"
    rpos,     \* reader position (bits)
    ridx,     \* index into layout of the next field to read
    reads,    \* results of the reads so far (history variable)
    outcome   \* result of the last action: "ok" or an error class

vars == <<bits, layout, ops, stage, rpos, ridx, reads, outcome>>

Space == 32
Sentinel == <<1, 0, 1>>

Field(t, n, start, v) == [typ |-> t, n |-> n, start |-> start, v |-> v]
(* pos = stream length after the operation; at = start of the overwritten field (set_uint), else -1 *)
Op(o, tag, n, v, pos) == [op |-> o, tag |-> tag, n |-> n, v |-> v, pos |-> pos, at |-> -1]

(* bytes written for input `inp` under a declared length of k octets *)
FitBytes(inp, k) == [i \in 1..k |-> IF i <= Len(inp) THEN inp[i] ELSE Space]

Append1(t, n, v) ==
    /\ bits' = bits \o v
    /\ layout' = Append(layout, Field(t, n, Len(bits), v))

Init ==
    /\ bits = <<>> /\ layout = <<>> /\ ops = <<>>
    /\ stage = "lead" /\ rpos = 0 /\ ridx = 1 /\ reads = <<>> /\ outcome = "ok"

(* ---- write phase ------------------------------------------------------ *)
WriteLead(k) ==
    /\ stage = "lead"
    /\ LET v == [i \in 1..k |-> i % 2] IN
       /\ IF k = 0 THEN UNCHANGED <<bits, layout>> ELSE Append1("bin", k, v)
       /\ ops' = IF k = 0 THEN ops ELSE Append(ops, Op("write_bin", "lead", k, v, Len(bits) + k))
    /\ stage' = "fields"
    /\ UNCHANGED <<rpos, ridx, reads, outcome>>

NFields == Len(SelectSeq(ops, LAMBDA o : o.tag = "f"))

WriteUint(n, v) ==
    /\ stage = "fields" /\ "uint" \in Kinds
    /\ Append1("uint", n, v)
    /\ ops' = Append(ops, Op("write_uint", "f", n, v, Len(bits) + n))
    /\ outcome' = "ok"
    /\ UNCHANGED <<stage, rpos, ridx, reads>>

(* sign-magnitude: v = <<sign>> \o magnitude ; "negative zero" cannot be written *)
WriteInt(n, v) ==
    /\ stage = "fields" /\ "int" \in Kinds /\ n >= 2
    /\ ~(v[1] = 1 /\ IsAllZeros(Tail(v)))
    /\ Append1("int", n, v)
    /\ ops' = Append(ops, Op("write_int", "f", n, v, Len(bits) + n))
    /\ outcome' = "ok"
    /\ UNCHANGED <<stage, rpos, ridx, reads>>

WriteBool(b) ==
    /\ stage = "fields" /\ "bool" \in Kinds
    /\ Append1("bool", 1, <<b>>)
    /\ ops' = Append(ops, Op("write_bool", "f", 1, <<b>>, Len(bits) + 1))
    /\ outcome' = "ok"
    /\ UNCHANGED <<stage, rpos, ridx, reads>>

WriteBin(v) ==
    /\ stage = "fields" /\ "bin" \in Kinds
    /\ Append1("bin", Len(v), v)
    /\ ops' = Append(ops, Op("write_bin", "f", Len(v), v, Len(bits) + Len(v)))
    /\ outcome' = "ok"
    /\ UNCHANGED <<stage, rpos, ridx, reads>>

WriteBytes(inp, k) ==
    /\ stage = "fields" /\ "bytes" \in Kinds
    /\ LET w == FitBytes(inp, k) IN
       /\ bits' = bits \o OctetsToBits(w)
       /\ layout' = Append(layout, Field("bytes", k, Len(bits), w))
       /\ ops' = Append(ops, Op("write_bytes", "f", k, inp, Len(bits) + 8 * k))
    /\ outcome' = "ok"
    /\ UNCHANGED <<stage, rpos, ridx, reads>>

Skip(n) ==
    /\ stage = "fields" /\ "skip" \in Kinds
    /\ Append1("bin", n, Zeros(n))
    /\ ops' = Append(ops, Op("skip", "f", n, Zeros(n), Len(bits) + n))
    /\ outcome' = "ok"
    /\ UNCHANGED <<stage, rpos, ridx, reads>>

(* overwrite the i-th field (an unsigned one) in place with pattern v *)
SetUint(i, v) ==
    /\ stage = "fields" /\ "set" \in Kinds
    /\ i \in 1..Len(layout) /\ layout[i].typ = "uint" /\ Len(v) = layout[i].n
    /\ LET s == layout[i].start  n == layout[i].n IN
       /\ bits' = [j \in 1..Len(bits) |-> IF j > s /\ j <= s + n THEN v[j - s] ELSE bits[j]]
       /\ layout' = [layout EXCEPT ![i].v = v]
       /\ ops' = Append(ops, [Op("set_uint", "f", n, v, Len(bits)) EXCEPT !.at = s])
    /\ outcome' = "ok"
    /\ UNCHANGED <<stage, rpos, ridx, reads>>

(* a value that does not fit its width (2^n), or a negative one, is refused: nothing is written *)
WriteTooBig(n) ==
    /\ stage = "fields" /\ "refuse" \in Kinds
    /\ ops' = Append(ops, Op("write_uint_overflow", "f", n, <<1>> \o Zeros(n), Len(bits)))
    /\ outcome' = "refused"
    /\ UNCHANGED <<bits, layout, stage, rpos, ridx, reads>>

WriteNegative(n) ==
    /\ stage = "fields" /\ "refuse" \in Kinds
    /\ ops' = Append(ops, Op("write_uint_negative", "f", n, <<1>>, Len(bits)))
    /\ outcome' = "refused"
    /\ UNCHANGED <<bits, layout, stage, rpos, ridx, reads>>

(* the same for an overwrite in place: 2^n, -1 or -2^(n-1) offered for the i-th field (an unsigned one) is refused - in
   particular a negative number is not written in two's complement - and the stream stays as it is *)
SetRefused(i, kind) ==
    /\ stage = "fields" /\ "set" \in Kinds
    /\ i \in 1..Len(layout) /\ layout[i].typ = "uint"
    /\ ops' = Append(ops, [Op(kind, "f", layout[i].n, <<1>>, Len(bits)) EXCEPT !.at = layout[i].start])
    /\ outcome' = "refused"
    /\ UNCHANGED <<bits, layout, stage, rpos, ridx, reads>>

(* a signed value whose magnitude does not fit n-1 bits is refused; the specification says
   nothing about the stream afterwards (the sign bit may already have been appended), so
   the behaviour ends here *)
WriteIntTooBig(n, sign, c) ==
    /\ stage = "fields" /\ "refuse" \in Kinds /\ n >= 2 /\ c \in {2, 3, 4}
    /\ ops' = Append(ops, Op("write_int_overflow", "f", n, <<sign>> \o ClassPattern(c, n), Len(bits)))
    /\ outcome' = "refused"
    /\ stage' = "done"
    /\ UNCHANGED <<bits, layout, rpos, ridx, reads>>

EndFields ==
    /\ stage = "fields"
    /\ stage' = "sentinel"
    /\ UNCHANGED <<bits, layout, ops, rpos, ridx, reads, outcome>>

WriteSentinel ==
    /\ stage = "sentinel"
    /\ Append1("bin", 3, Sentinel)
    /\ ops' = Append(ops, Op("write_bin", "sent", 3, Sentinel, Len(bits) + 3))
    /\ stage' = "pad"
    /\ UNCHANGED <<rpos, ridx, reads, outcome>>

Pad ==
    /\ stage = "pad"
    /\ LET k == PadLen(Len(bits), 8) IN
       /\ IF k = 0 THEN UNCHANGED <<bits, layout>> ELSE Append1("bin", k, Zeros(k))
       /\ ops' = IF k = 0 THEN ops ELSE Append(ops, Op("skip", "pad", k, Zeros(k), Len(bits) + k))
    /\ stage' = "read"
    /\ outcome' = "ok"
    /\ UNCHANGED <<rpos, ridx, reads>>

(* ---- read phase ------------------------------------------------------- *)
ReadNext ==
    /\ stage = "read" /\ ridx <= Len(layout)
    /\ LET f == layout[ridx]
           w == IF f.typ = "bytes" THEN 8 * f.n ELSE f.n
           raw == Slice(bits, rpos + 1, w)
           val == IF f.typ = "bytes" THEN BitsToOctets(raw) ELSE raw
           \* an unsigned read of all ones is "missing" only for widths above one bit
           missing == f.typ = "uint" /\ w > 1 /\ IsAllOnes(raw)
       IN /\ reads' = Append(reads, [typ |-> f.typ, n |-> f.n, v |-> val, missing |-> missing, pos |-> rpos + w])
          /\ rpos' = rpos + w
    /\ ridx' = ridx + 1
    /\ UNCHANGED <<bits, layout, ops, stage, outcome>>

EndRead ==
    /\ stage = "read" /\ ridx > Len(layout)
    /\ stage' = "past"
    /\ UNCHANGED <<bits, layout, ops, rpos, ridx, reads, outcome>>

(* every typed read beyond the end is the library's BitReadError and reads nothing *)
ReadTypes == <<"uint", "int", "bool", "bin", "bytes">>
ReadPastEnd ==
    /\ stage = "past"
    /\ reads' = reads \o [i \in 1..Len(ReadTypes) |->
                    [typ |-> ReadTypes[i], n |-> 1, v |-> <<>>, missing |-> FALSE, pos |-> rpos]]
    /\ outcome' = "BitReadError"
    /\ stage' = "done"
    /\ UNCHANGED <<bits, layout, ops, rpos, ridx>>

FieldStep ==
    \/ \E n \in Widths : \E c \in UintClasses : WriteUint(n, ClassPattern(c, n))
    \/ \E n \in Widths : \E v \in ClassPatterns(n) : WriteInt(n, v)
    \/ \E b \in Bit : WriteBool(b)
    \/ \E n \in 1..3 : \E v \in ClassPatterns(n) : WriteBin(v)
    \/ \E inp \in ByteInputs, k \in ByteLens : WriteBytes(inp, k)
    \/ \E n \in {1, 8, 13} : Skip(n)
    \/ \E i \in 1..Len(layout) : \E v \in ClassPatterns(IF layout[i].typ = "uint" THEN layout[i].n ELSE 1) : SetUint(i, v)
    \/ \E n \in Widths : WriteTooBig(n) \/ WriteNegative(n)
    \/ \E i \in 1..Len(layout) : \E kind \in {"set_uint_overflow", "set_uint_negative", "set_uint_negative_half"} : SetRefused(i, kind)
    \/ \E n \in Widths, sign \in Bit, c \in {2, 3, 4} : WriteIntTooBig(n, sign, c)

Next ==
    \/ \E k \in LeadIns : WriteLead(k)
    \/ (NFields < MaxFields /\ FieldStep)
    \/ EndFields \/ WriteSentinel \/ Pad \/ ReadNext \/ EndRead
    \/ ReadPastEnd

Spec == Init /\ [][Next]_vars

(* ---- properties -------------------------------------------------------- *)
TypeOK ==
    /\ bits \in Seq(Bit)
    /\ rpos \in 0..Len(bits)
    /\ stage \in {"lead", "fields", "sentinel", "pad", "read", "past", "done"}

(* the layout tiles the stream exactly, in order *)
RECURSIVE TilesFrom(_, _)
TilesFrom(i, at) ==
    IF i > Len(layout) THEN at = Len(bits)
    ELSE /\ layout[i].start = at
         /\ TilesFrom(i + 1, at + (IF layout[i].typ = "bytes" THEN 8 * layout[i].n ELSE layout[i].n))
LayoutTilesStream == TilesFrom(1, 0)

(* Reading back with the same types and widths returns what was written ... *)
ReadReturnsWritten ==
    \A i \in 1..Len(reads) : i <= Len(layout) =>
        /\ reads[i].v = layout[i].v /\ reads[i].typ = layout[i].typ /\ reads[i].n = layout[i].n

(* ... and leaves reader and writer at the same position *)
CursorsAgree == (stage \in {"past", "done"} /\ outcome # "refused") => rpos = Len(bits)

MissingOnlyAboveOneBit ==
    \A i \in 1..Len(reads) :
        reads[i].missing <=> (reads[i].typ = "uint" /\ reads[i].n > 1 /\ IsAllOnes(reads[i].v) /\ reads[i].v # <<>>)

OctetAlignedWhenRead == (stage \in {"read", "past", "done"} /\ outcome # "refused") => Len(bits) % 8 = 0

(* action property: an in-place overwrite changes exactly its own bits *)
IsSet == Len(ops') = Len(ops) + 1 /\ ops'[Len(ops')].op = "set_uint"
SetUintTouchesOnlyItsBits ==
    [][IsSet => LET o == ops'[Len(ops')] IN
                 /\ Len(bits') = Len(bits)
                 /\ \A j \in 1..Len(bits) : (j <= o.at \/ j > o.at + o.n) => bits'[j] = bits[j]
                 /\ Slice(bits', o.at + 1, o.n) = o.v]_vars

IsRefusal == Len(ops') = Len(ops) + 1 /\ ops'[Len(ops')].op \in {"write_uint_overflow", "write_uint_negative", "set_uint_overflow", "set_uint_negative", "set_uint_negative_half"}
RefusedWritesNothing ==
    [][IsRefusal => (bits' = bits /\ layout' = layout /\ outcome' = "refused")]_vars

PastEndIsError == stage = "done" => outcome \in {"BitReadError", "refused"}

(* emission of complete behaviours for the conformance driver *)
Emit == stage = "done" =>
    PrintT(ToJson([ops |-> ops, bits |-> bits, reads |-> reads]))
=============================================================================
