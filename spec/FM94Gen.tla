------------------------------ MODULE FM94Gen ------------------------------
(***************************************************************************)
(* spec -> code: complete behaviours of FM94 (produce form) are printed as *)
(* JSON together with the whole message assembled by Framing, so that the  *)
(* conformance driver never needs pybufrkit to build the octets.           *)
(***************************************************************************)
EXTENDS FM94, Scope

CONSTANTS MasterVersion, LocalVersion, Centre, SubCentre,
          IdentVariant      \* 0: the plain identification; 1: every identification field at the top of its range

Ident == IF IdentVariant = 1 THEN [IdentMax EXCEPT !.mversion = MasterVersion]
         ELSE [Ident0 EXCEPT !.mversion = MasterVersion, !.lversion = LocalVersion, !.centre = Centre, !.subcentre = SubCentre]

(* Compiler.Scoped of every template, computed once *)
ASSUME TLCSet(17, [t \in 1..Len(Templates) |-> Scoped(Prog[t])])
ScopedOf == TLCGet(17)

EmitEntry(e) ==
    [lab |-> e.lab, t |-> e.t, w |-> e.w, sc |-> e.sc, ref |-> e.ref, link |-> e.link, d |-> e.d, p |-> e.p, mean |-> e.mean,
     v |-> [i \in 1..Len(e.v) |-> [miss |-> e.v[i].miss, raw |-> e.v[i].raw, N |-> NOf(e, i)]]]

Behaviour ==
    [tid |-> tid, ids |-> Templates[tid], ed |-> ed, cmp |-> cmp, nsub |-> nsub, seed |-> seed, err |-> err,
     nbits_used |-> pos, scoped |-> ScopedOf[tid], data0 |-> IF Mode = "consume" THEN DataBit0 ELSE 0,
     padding_nonzero |-> IF Mode = "consume" /\ err = ""
                         THEN \E i \in (DataBit0 + pos + 1)..(8 * (Hdrs[tid].s4 + Hdrs[tid].l4)) : BitOf(Oct, i) = 1
                         ELSE FALSE,
     nbits |-> Len(bits), identv |-> IdentVariant, mversion |-> MasterVersion, lversion |-> LocalVersion, centre |-> Centre, subcentre |-> SubCentre,
     msg |-> IF Mode = "produce" THEN Message(ed, Ident, <<>>, nsub, TRUE, cmp, Templates[tid], bits) ELSE <<>>,
     subsets |-> [s \in 1..Len(AllOut) |-> [i \in 1..Len(AllOut[s]) |-> EmitEntry(AllOut[s][i])]]]

(* ---- C06: the subsets of an uncompressed message one by one, and in reverse order ---------- *)
RECURSIVE SubsetEnd(_)
SubsetEnd(k) == IF k = 0 THEN 0 ELSE IF AllOut[k] = <<>> THEN SubsetEnd(k - 1) ELSE AllOut[k][Len(AllOut[k])].p
SubsetBits(s) == SubSeq(bits, SubsetEnd(s - 1) + 1, SubsetEnd(s))
RECURSIVE RevBits(_)
RevBits(s) == IF s = 0 THEN <<>> ELSE SubsetBits(s) \o RevBits(s - 1)

Splittable == Mode = "produce" /\ err = "" /\ ~cmp /\ nsub > 1
BehaviourWithSolo ==
    [b |-> Behaviour,
     solo |-> IF Splittable THEN [s \in 1..nsub |-> Message(ed, Ident, <<>>, 1, TRUE, FALSE, Templates[tid], SubsetBits(s))] ELSE <<>>,
     rev |-> IF Splittable THEN Message(ed, Ident, <<>>, nsub, TRUE, FALSE, Templates[tid], RevBits(nsub)) ELSE <<>>]

Emit == Finished => PrintT(ToJson(Behaviour))
EmitSolo == Finished => PrintT(ToJson(BehaviourWithSolo))

(* every subset starts from the initial registers, whatever the previous subset left behind *)
SubsetsStartFresh == [][sub' # sub => (reg' = R0 /\ frames' = <<>> /\ pc' = 1 /\ phase' = "pre")]_vars
=============================================================================
