------------------------------ MODULE FM94Gen ------------------------------
(***************************************************************************)
(* spec -> code: complete behaviours of FM94 (produce form) are printed as *)
(* JSON together with the whole message assembled by Framing, so that the  *)
(* conformance driver never needs pybufrkit to build the octets.           *)
(***************************************************************************)
EXTENDS FM94

CONSTANTS MasterVersion, LocalVersion, Centre, SubCentre

Ident == [Ident0 EXCEPT !.mversion = MasterVersion, !.lversion = LocalVersion, !.centre = Centre, !.subcentre = SubCentre]

EmitEntry(e) ==
    [lab |-> e.lab, t |-> e.t, w |-> e.w, sc |-> e.sc, link |-> e.link, d |-> e.d, p |-> e.p,
     v |-> [i \in 1..Len(e.v) |-> [miss |-> e.v[i].miss, raw |-> e.v[i].raw, N |-> NOf(e, i)]]]

Behaviour ==
    [tid |-> tid, ids |-> Templates[tid], ed |-> ed, cmp |-> cmp, nsub |-> nsub, seed |-> seed, err |-> err,
     nbits_used |-> pos, data0 |-> IF Mode = "consume" THEN DataBit0 ELSE 0,
     padding_nonzero |-> IF Mode = "consume" /\ err = ""
                         THEN \E i \in (DataBit0 + pos + 1)..(8 * (Hdrs[tid].s4 + Hdrs[tid].l4)) : BitOf(Oct, i) = 1
                         ELSE FALSE,
     nbits |-> Len(bits), mversion |-> MasterVersion, lversion |-> LocalVersion, centre |-> Centre, subcentre |-> SubCentre,
     msg |-> IF Mode = "produce" THEN Message(ed, Ident, <<>>, nsub, TRUE, cmp, Templates[tid], bits) ELSE <<>>,
     subsets |-> [s \in 1..Len(AllOut) |-> [i \in 1..Len(AllOut[s]) |-> EmitEntry(AllOut[s][i])]]]

Emit == Finished => PrintT(ToJson(Behaviour))
=============================================================================
