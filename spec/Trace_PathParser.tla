------------------------- MODULE Trace_PathParser -------------------------
(***************************************************************************)
(* code -> spec: outcomes recorded from the real NodePathParser (verdict,   *)
(* subset slice, components, printed form) for arbitrary long strings are   *)
(* validated against PathParser.  One behaviour per recorded case: the      *)
(* recorded string is fed to the automaton character by character; at the   *)
(* end the recorded outcome must equal both the automaton's and the         *)
(* grammar's, and the recorded printout must parse back to the same path.   *)
(* The verdict for every case is emitted (total: accept or the name of the  *)
(* failing clause), nothing relies on TLC stopping at a violation.          *)
(***************************************************************************)
EXTENDS PathParser, IOUtils

Cases == JsonDeserialize(IOEnv.TRACE_FILE)

VARIABLE tid

tvars == <<vars, tid>>

TInit == Init /\ tid \in 1..Len(Cases)

TFeed ==
    /\ Len(input) < Len(Cases[tid].s)
    /\ Feed(Cases[tid].s[Len(input) + 1])
    /\ UNCHANGED tid

TNext == TFeed

AtEnd == Len(input) = Len(Cases[tid].s)

(* recorded outcome -> the record shape of Finish / Grammar *)
Rec == Cases[tid]
Recorded == IF Rec.ok THEN [ok |-> TRUE, subset |-> Rec.subset, comps |-> Rec.comps] ELSE Reject

Clause ==
    IF ~Rec.ok /\ Rec.err # "PathExprParsingError" /\ ~Finish.ok THEN "error-type"
    ELSE IF Finish.ok # Rec.ok THEN "verdict"
    ELSE IF Finish # Recorded THEN "parsed-value"
    ELSE IF Grammar(input) # Recorded THEN "grammar"
    ELSE IF Rec.ok /\ Grammar(Rec.printed) # Recorded THEN "print-parse"
    ELSE "accepted"

EmitVerdict == AtEnd => PrintT(ToJson([tid |-> tid, clause |-> Clause]))
=============================================================================
