------------------------------- MODULE Subset -------------------------------
(***************************************************************************)
(* Extracting subsets from a message (C10).                                *)
(*                                                                         *)
(* A request is a non-empty sequence of indices (any order, repeats        *)
(* allowed).  It is refused when some index is outside 0..n-1; otherwise   *)
(* the result holds the DISTINCT requested subsets in ascending order of   *)
(* their index; everything else of the message - template, identification, *)
(* compression flag - stays, and the source is not changed.                *)
(***************************************************************************)
EXTENDS Naturals, Integers, Sequences, FiniteSets, TLC, Json

CONSTANTS MaxSubsets,    \* messages with 1..MaxSubsets subsets: every request
          MaxReq,        \* requests of 1..MaxReq indices drawn from -1..n
          BigCounts      \* larger subset counts: requests drawn from a pool of indices around 0, 8 (where small hash
                         \* tables wrap), the middle and n

VARIABLES n, req
vars == <<n, req>>

IndexPool(k) == IF k <= MaxSubsets THEN -1..k
                ELSE {i \in {-1, 0, 1, 2, 5, 7, 8, 9, k - 2, k - 1, k} : i <= k}
Init == n \in (1..MaxSubsets) \cup BigCounts /\ req = <<>>
Extend == Len(req) < MaxReq /\ \E i \in IndexPool(n) : req' = Append(req, i) /\ UNCHANGED n
Next == Extend

Wanted == {req[i] : i \in 1..Len(req)}
Refused == \E i \in Wanted : i < 0 \/ i >= n
RECURSIVE Ascending(_)
Ascending(S) == IF S = {} THEN <<>> ELSE LET m == CHOOSE x \in S : \A y \in S : x <= y IN <<m>> \o Ascending(S \ {m})
Selected == Ascending(Wanted)            \* the source indices of the result's subsets, in order

CountIsDistinct == (req # <<>> /\ ~Refused) => Len(Selected) = Cardinality(Wanted)
IthIsIthSmallest == (req # <<>> /\ ~Refused) =>
    \A i \in 1..Len(Selected) : Cardinality({x \in Wanted : x < Selected[i]}) = i - 1
OutOfRangeRefused == (\E i \in 1..Len(req) : req[i] = -1 \/ req[i] = n) => Refused
OrderAndRepeatsIrrelevant == TRUE     \* by construction: Selected depends on the set Wanted only

Emit == req # <<>> => PrintT(ToJson([n |-> n, req |-> req, refused |-> Refused, selected |-> IF Refused THEN <<>> ELSE Selected]))
=============================================================================
