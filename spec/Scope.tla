------------------------------- MODULE Scope -------------------------------
(***************************************************************************)
(* The single-pass condition of template compilation (C08), as a predicate *)
(* over programs (see Compiler.tla for the reading).  Kept in a module of  *)
(* its own so that the walker specification can label every behaviour with *)
(* it: for a scoped program the compiled path must behave as FM94.tla says *)
(* and the behaviour is replayed through compiling coders as well.         *)
(***************************************************************************)
EXTENDS Tables, FiniteSets

(* ---- the operator registers a single pass tracks ---------------------------------- *)
S0 == [dw |-> 0, ds |-> 0, y207 |-> 0, strw |-> 0, assoc |-> <<>>, rvw |-> 0, skipw |-> 0, dnp |-> 0, refs |-> {}]

OpEffect(r, id) ==
    LET x == id \div 1000 y == id % 1000 IN
    CASE x = 201 -> [r EXCEPT !.dw = IF y = 0 THEN 0 ELSE y - 128]
      [] x = 202 -> [r EXCEPT !.ds = IF y = 0 THEN 0 ELSE y - 128]
      [] x = 203 -> IF y = 255 THEN [r EXCEPT !.rvw = 0] ELSE IF y = 0 THEN [r EXCEPT !.rvw = 0, !.refs = {}] ELSE [r EXCEPT !.rvw = y]
      [] x = 204 -> IF y = 0 THEN [r EXCEPT !.assoc = IF @ = <<>> THEN <<>> ELSE SubSeq(@, 1, Len(@) - 1)] ELSE [r EXCEPT !.assoc = Append(@, y)]
      [] x = 206 -> [r EXCEPT !.skipw = y]
      [] x = 207 -> [r EXCEPT !.y207 = y]
      [] x = 208 -> [r EXCEPT !.strw = y]
      [] x = 221 -> [r EXCEPT !.dnp = y]
      [] OTHER -> r

RECURSIVE Pass(_, _, _, _)
(* registers after a single pass over program positions i..stop-1, every body visited once *)
Pass(p, i, stop, r) ==
    IF i >= stop THEN r
    ELSE LET ins == p[i]
             r1 == IF r.dnp > 0 THEN [r EXCEPT !.dnp = @ - 1] ELSE r
         IN IF r1.skipw > 0 /\ ins.k # "O" THEN Pass(p, i + 1 + ins.span + (IF ins.k = "D" THEN 1 ELSE 0), stop, [r1 EXCEPT !.skipw = 0])
            ELSE IF ins.k = "O" THEN Pass(p, i + 1, stop, OpEffect(r1, ins.id))
            ELSE IF ins.k = "E" THEN Pass(p, i + 1, stop, IF r1.rvw > 0 THEN [r1 EXCEPT !.refs = @ \cup {ins.id}] ELSE r1)
            ELSE Pass(p, i + 1, stop, r1)        \* S, R, D, F: the body follows in line and is passed once

(* registers when the single pass reaches position i *)
At(p, i) == Pass(p, 1, i, S0)

BodyRange(p, i) == IF p[i].k = "R" THEN <<i + 1, i + 1 + p[i].span>> ELSE <<i + 2, i + 2 + p[i].span>>
Neutral(p, i) ==
    LET b == BodyRange(p, i)
        rin == At(p, b[1])
    IN /\ At(p, i).dnp = 0                          \* (the register before the replication descriptor itself is counted)
       /\ rin.dnp = 0
       /\ Pass(p, b[1], b[2], rin) = rin
Scoped(p) == \A i \in 1..Len(p) : p[i].k \in {"R", "D"} => Neutral(p, i)

=============================================================================
