------------------------------- MODULE Bits -------------------------------
(***************************************************************************)
(* Pure operators on bit sequences (Seq({0,1}), most significant bit      *)
(* first) and octet sequences (Seq(0..255)).  Everything that interprets  *)
(* a field numerically does it either on short patterns (< 31 bits, TLC   *)
(* integers) or through module Wide.                                      *)
(***************************************************************************)
EXTENDS Naturals, Integers, Sequences

Bit == {0, 1}

RECURSIVE Rep(_, _)
Rep(b, n) == IF n <= 0 THEN <<>> ELSE <<b>> \o Rep(b, n - 1)

Ones(n)  == [i \in 1..n |-> 1]
Zeros(n) == [i \in 1..n |-> 0]

IsAllOnes(bs) == \A i \in 1..Len(bs) : bs[i] = 1
IsAllZeros(bs) == \A i \in 1..Len(bs) : bs[i] = 0

Pow2(n) == 2 ^ n

(* n-bit big-endian pattern of a natural number v < 2^n, n <= 30 *)
UintBits(v, n) == [i \in 1..n |-> (v \div (2 ^ (n - i))) % 2]

RECURSIVE BitsToNatAcc(_, _, _)
BitsToNatAcc(bs, i, acc) ==
    IF i > Len(bs) THEN acc ELSE BitsToNatAcc(bs, i + 1, 2 * acc + bs[i])
(* value of a pattern of at most 30 bits *)
BitsToNat(bs) == BitsToNatAcc(bs, 1, 0)

Slice(s, from, n) == [i \in 1..n |-> s[from + i - 1]]     \* n elements starting at index from (1-based)

OctetBits(o) == UintBits(o, 8)

RECURSIVE OctetsToBits(_)
OctetsToBits(os) == IF os = <<>> THEN <<>> ELSE OctetBits(Head(os)) \o OctetsToBits(Tail(os))

(* the octets of a bit sequence whose length is a multiple of 8 *)
BitsToOctets(bs) == [k \in 1..(Len(bs) \div 8) |-> BitsToNat(Slice(bs, 8 * (k - 1) + 1, 8))]

(* bit i (1-based) of an octet sequence without materialising all bits *)
BitOf(os, i) == (os[((i - 1) \div 8) + 1] \div (2 ^ (7 - ((i - 1) % 8)))) % 2
BitsAt(os, pos, n) == [i \in 1..n |-> BitOf(os, pos + i)]   \* n bits after 0-based bit position pos

(* The five value classes of an n-bit field: 0, 1, 2^(n-1), 2^n-2, 2^n-1 *)
ClassPattern(c, n) ==
    CASE c = 0 -> Zeros(n)
      [] c = 1 -> [i \in 1..n |-> IF i = n THEN 1 ELSE 0]
      [] c = 2 -> [i \in 1..n |-> IF i = 1 THEN 1 ELSE 0]
      [] c = 3 -> [i \in 1..n |-> IF i = n THEN 0 ELSE 1]
      [] c = 4 -> Ones(n)
ClassPatterns(n) == {ClassPattern(c, n) : c \in 0..4}

PadLen(n, m) == (m - (n % m)) % m     \* bits to add to reach a multiple of m
=============================================================================
