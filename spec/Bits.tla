------------------------------- MODULE Bits -------------------------------
(***************************************************************************)
(* Pure operators on bit sequences (Seq({0,1}), most significant bit      *)
(* first) and octet sequences (Seq(0..255)).  Everything that interprets  *)
(* a field numerically does it either on short patterns (< 31 bits, TLC   *)
(* integers) or through module Wide.                                      *)
(***************************************************************************)
EXTENDS Naturals, Integers, Sequences

Bit == {0, 1}

RECURSIVE Rep(_, _)
Rep(b, n) == IF n <= 0 THEN <<>> ELSE <<b>> \o Rep(b, n - 1)

Ones(n)  == [i \in 1..n |-> 1]
Zeros(n) == [i \in 1..n |-> 0]

IsAllOnes(bs) == \A i \in 1..Len(bs) : bs[i] = 1
IsAllZeros(bs) == \A i \in 1..Len(bs) : bs[i] = 0

Pow2(n) == 2 ^ n

(* n-bit big-endian pattern of a natural number v < 2^n, n <= 30 *)
UintBits(v, n) == [i \in 1..n |-> (v \div (2 ^ (n - i))) % 2]

RECURSIVE BitsToNatAcc(_, _, _)
BitsToNatAcc(bs, i, acc) ==
    IF i > Len(bs) THEN acc ELSE BitsToNatAcc(bs, i + 1, 2 * acc + bs[i])
(* value of a pattern of at most 30 bits *)
BitsToNat(bs) == BitsToNatAcc(bs, 1, 0)

Slice(s, from, n) == [i \in 1..n |-> s[from + i - 1]]     \* n elements starting at index from (1-based)

OctetBits(o) == UintBits(o, 8)

RECURSIVE OctetsToBits(_)
OctetsToBits(os) == IF os = <<>> THEN <<>> ELSE OctetBits(Head(os)) \o OctetsToBits(Tail(os))

(* the octets of a bit sequence whose length is a multiple of 8 *)
BitsToOctets(bs) == [k \in 1..(Len(bs) \div 8) |-> BitsToNat(Slice(bs, 8 * (k - 1) + 1, 8))]

(* bit i (1-based) of an octet sequence without materialising all bits *)
BitOf(os, i) == (os[((i - 1) \div 8) + 1] \div (2 ^ (7 - ((i - 1) % 8)))) % 2
BitsAt(os, pos, n) == [i \in 1..n |-> BitOf(os, pos + i)]   \* n bits after 0-based bit position pos

(* The five value classes of an n-bit field: 0, 1, 2^(n-1), 2^n-2, 2^n-1 *)
ClassPattern(c, n) ==
    CASE c = 0 -> Zeros(n)
      [] c = 1 -> [i \in 1..n |-> IF i = n THEN 1 ELSE 0]
      [] c = 2 -> [i \in 1..n |-> IF i = 1 THEN 1 ELSE 0]
      [] c = 3 -> [i \in 1..n |-> IF i = n THEN 0 ELSE 1]
      [] c = 4 -> Ones(n)
ClassPatterns(n) == {ClassPattern(c, n) : c \in 0..4}

PadLen(n, m) == (m - (n % m)) % m     \* bits to add to reach a multiple of m

(* ---- arithmetic on equal-length bit patterns (no integers involved) ------- *)
RECURSIVE BLessAt(_, _, _)
BLessAt(a, b, i) == IF i > Len(a) THEN FALSE
                    ELSE IF a[i] < b[i] THEN TRUE ELSE IF a[i] > b[i] THEN FALSE ELSE BLessAt(a, b, i + 1)
BLess(a, b) == BLessAt(a, b, 1)

RECURSIVE BSubR(_, _, _, _, _)
BSubR(a, b, i, borrow, acc) ==
    IF i = 0 THEN acc
    ELSE LET t == a[i] - b[i] - borrow IN
         IF t < 0 THEN BSubR(a, b, i - 1, 1, <<t + 2>> \o acc) ELSE BSubR(a, b, i - 1, 0, <<t>> \o acc)
BSub(a, b) == BSubR(a, b, Len(a), 0, <<>>)          \* a - b, requires a >= b

RECURSIVE BAddR(_, _, _, _, _)
BAddR(a, b, i, carry, acc) ==
    IF i = 0 THEN <<carry>> \o acc                   \* one bit longer than the operands
    ELSE LET t == a[i] + b[i] + carry IN BAddR(a, b, i - 1, t \div 2, <<t % 2>> \o acc)
BAdd(a, b) == BAddR(a, b, Len(a), 0, <<>>)

(* widen / narrow a pattern on the left *)
ZeroExtend(bs, n) == IF Len(bs) >= n THEN bs ELSE Zeros(n - Len(bs)) \o bs
LowBits(bs, n) == SubSeq(bs, Len(bs) - n + 1, Len(bs))
RECURSIVE LeadingZeros(_, _)
LeadingZeros(bs, i) == IF i > Len(bs) \/ bs[i] = 1 THEN i - 1 ELSE LeadingZeros(bs, i + 1)
SignificantBits(bs) == Len(bs) - LeadingZeros(bs, 1)    \* bit length of the value
=============================================================================
