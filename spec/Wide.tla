------------------------------- MODULE Wide -------------------------------
(***************************************************************************)
(* Integers of arbitrary size for TLC (whose integers are 32-bit):         *)
(* a Wide number is [s |-> 1 | -1, m |-> <<limbs>>], limbs base 10000,     *)
(* least significant first, no leading (most significant) zero limbs,      *)
(* zero is [s |-> 1, m |-> <<>>].  Used wherever a field content is        *)
(* interpreted numerically: raw + reference, reference * 10^Y (207).       *)
(* Across JSON a Wide number travels as {"s": +-1, "m": [limbs]}.          *)
(***************************************************************************)
EXTENDS Naturals, Integers, Sequences, Bits

B == 10000

WZero == [s |-> 1, m |-> <<>>]

RECURSIVE Trim(_)
Trim(m) == IF m # <<>> /\ m[Len(m)] = 0 THEN Trim(SubSeq(m, 1, Len(m) - 1)) ELSE m

Norm(s, m) == LET t == Trim(m) IN [s |-> IF t = <<>> THEN 1 ELSE s, m |-> t]

RECURSIVE NatLimbs(_)
NatLimbs(n) == IF n = 0 THEN <<>> ELSE <<n % B>> \o NatLimbs(n \div B)

(* from a TLC integer with |n| < 2^31 *)
FromInt(n) == IF n >= 0 THEN [s |-> 1, m |-> NatLimbs(n)]
              ELSE IF n = -2147483647 - 1 THEN [s |-> -1, m |-> <<3648, 4748, 21>>]
              ELSE [s |-> -1, m |-> NatLimbs(0 - n)]

Limb(m, i) == IF i <= Len(m) THEN m[i] ELSE 0
Max(a, b) == IF a >= b THEN a ELSE b

(* magnitudes *)
RECURSIVE MAddAt(_, _, _, _)
MAddAt(a, b, i, carry) ==
    IF i > Max(Len(a), Len(b)) THEN (IF carry = 0 THEN <<>> ELSE <<carry>>)
    ELSE LET t == Limb(a, i) + Limb(b, i) + carry IN <<t % B>> \o MAddAt(a, b, i + 1, t \div B)
MAdd(a, b) == MAddAt(a, b, 1, 0)

RECURSIVE MCmpAt(_, _, _)
MCmpAt(a, b, i) == IF i = 0 THEN 0
                   ELSE IF Limb(a, i) > Limb(b, i) THEN 1
                   ELSE IF Limb(a, i) < Limb(b, i) THEN -1
                   ELSE MCmpAt(a, b, i - 1)
MCmp(a, b) == IF Len(a) > Len(b) THEN 1 ELSE IF Len(a) < Len(b) THEN -1 ELSE MCmpAt(a, b, Len(a))

(* a - b for magnitudes with a >= b *)
RECURSIVE MSubAt(_, _, _, _)
MSubAt(a, b, i, borrow) ==
    IF i > Len(a) THEN <<>>
    ELSE LET t == Limb(a, i) - Limb(b, i) - borrow IN
         IF t < 0 THEN <<t + B>> \o MSubAt(a, b, i + 1, 1) ELSE <<t>> \o MSubAt(a, b, i + 1, 0)
MSub(a, b) == Trim(MSubAt(a, b, 1, 0))

RECURSIVE MMulSmallAt(_, _, _, _)
MMulSmallAt(a, k, i, carry) ==        \* k < 2^16
    IF i > Len(a) THEN NatLimbs(carry)
    ELSE LET t == a[i] * k + carry IN <<t % B>> \o MMulSmallAt(a, k, i + 1, t \div B)

WNeg(x) == Norm(0 - x.s, x.m)

WAdd(x, y) ==
    IF x.s = y.s THEN Norm(x.s, MAdd(x.m, y.m))
    ELSE LET c == MCmp(x.m, y.m) IN
         IF c = 0 THEN WZero
         ELSE IF c > 0 THEN Norm(x.s, MSub(x.m, y.m))
         ELSE Norm(y.s, MSub(y.m, x.m))

WSub(x, y) == WAdd(x, WNeg(y))

WCmp(x, y) ==       \* -1, 0, 1
    IF x.s # y.s THEN (IF x.m = <<>> /\ y.m = <<>> THEN 0 ELSE x.s)
    ELSE x.s * MCmp(x.m, y.m)

WMulSmall(x, k) == Norm(x.s, MMulSmallAt(x.m, k, 1, 0))     \* 0 <= k < 2^16

RECURSIVE WMulPow10(_, _)
WMulPow10(x, e) == IF e <= 0 THEN x
                   ELSE IF e >= 4 THEN WMulPow10(Norm(x.s, IF x.m = <<>> THEN <<>> ELSE <<0>> \o x.m), e - 4)
                   ELSE WMulPow10(WMulSmall(x, 10), e - 1)

(* value of a bit pattern of any length (most significant bit first) *)
RECURSIVE FromBits(_)
FromBits(bs) ==
    IF Len(bs) <= 30 THEN FromInt(BitsToNat(bs))
    ELSE LET hi == FromBits(SubSeq(bs, 1, Len(bs) - 30))
             lo == FromInt(BitsToNat(SubSeq(bs, Len(bs) - 29, Len(bs))))
         IN WAdd(WMulSmall(WMulSmall(hi, 32768), 32768), lo)

(* sign-magnitude field: first bit is the sign *)
FromSignMagnitude(bs) ==
    LET v == FromBits(Tail(bs)) IN IF bs[1] = 1 THEN WNeg(v) ELSE v
=============================================================================
