------------------------------- MODULE Query --------------------------------
(***************************************************************************)
(* Evaluation of data paths over the hierarchical view (C16).              *)
(*                                                                         *)
(* A path is a sequence of components [sep, id, sl]:  sep "/" child,       *)
(* "." attribute (the factor of a delayed replication counts as its        *)
(* attribute);  sl = [kind |-> "all"] | [kind |-> "int", i] |              *)
(* [kind |-> "slice", a, b, c] with 99 standing for an omitted bound.      *)
(* The result is a nested sequence of flat positions:                      *)
(*   - a step through a replication wraps what it finds in ONE envelope    *)
(*     that holds one list per repetition (repetitions that contribute     *)
(*     nothing are left out, an empty envelope is left out);               *)
(*   - the ids are matched - and the slice applied - within one repetition *)
(*     block, by position, on the FIRST repetition;                        *)
(*   - matches are always kept in document order.                          *)
(* Results are token sequences: -2 "[", -3 "]", n > 0 a flat position.     *)
(***************************************************************************)
EXTENDS Wiring

Omitted == 99
NormIndex(i, n) == IF i < 0 THEN n + i ELSE i               \* 0-based
(* Python slicing of the positions 1..n (returns a set: document order is kept anyway) *)
Picked(sl, n) ==
    IF sl.kind = "all" THEN 1..n
    ELSE IF sl.kind = "int" THEN (IF NormIndex(sl.i, n) \in 0..(n - 1) THEN {NormIndex(sl.i, n) + 1} ELSE {})
    ELSE LET step == IF sl.c = Omitted THEN 1 ELSE sl.c
             clamp(x, lo, hi) == IF x < lo THEN lo ELSE IF x > hi THEN hi ELSE x
         IN IF step > 0
            THEN LET a == IF sl.a = Omitted THEN 0 ELSE clamp(NormIndex(sl.a, n), 0, n)
                     b == IF sl.b = Omitted THEN n ELSE clamp(NormIndex(sl.b, n), 0, n)
                 IN {q + 1 : q \in {x \in a..(b - 1) : (x - a) % step = 0}}
            ELSE LET a == IF sl.a = Omitted THEN n - 1 ELSE clamp(NormIndex(sl.a, n), -1, n - 1)
                     b == IF sl.b = Omitted THEN -1 ELSE clamp(NormIndex(sl.b, n), -1, n - 1)
                 IN {q + 1 : q \in {x \in (b + 1)..a : (a - x) % (0 - step) = 0}}

(* positions (within ns) of the nodes with that id, after slicing among the matches, ascending *)
MatchPositions(ns, c) ==
    LET m == SelectSeq([q \in 1..Len(ns) |-> q], LAMBDA q : ns[q].id = c.id)
        keep == Picked(c.sl, Len(m))
    IN SelectSeq(m, LAMBDA q : \E j \in keep : m[j] = q)

Open == -2
Close == -3
RECURSIVE Eval(_, _, _)
RECURSIVE EvalEach(_, _, _, _)
RECURSIVE EvalReps(_, _, _, _, _)
(* tokens of what `comps[j..]` designates below node *)
Proceed(node, comps, j) == IF j > Len(comps) THEN (IF node.k = "val" THEN <<node.idx>> ELSE <<-9>>)   \* -9: valueless node
                           ELSE Eval(node, comps, j)
EvalEach(ns, mp, comps, j) ==      \* the nodes ns[pos[1]], ns[pos[2]], ... in order
    IF mp = <<>> THEN <<>> ELSE Proceed(ns[mp[1]], comps, j) \o EvalEach(ns, Tail(mp), comps, j)
EvalReps(node, mp, r, comps, j) ==     \* repetitions r, r+1, ... of a replication node
    IF (r - 1) * node.nmem >= Len(node.members) THEN <<>>
    ELSE LET block == SubSeq(node.members, (r - 1) * node.nmem + 1, r * node.nmem)
             got == EvalEach(block, mp, comps, j)
         IN (IF got = <<>> THEN <<>> ELSE <<Open>> \o got \o <<Close>>) \o EvalReps(node, mp, r + 1, comps, j)
Eval(node, comps, j) ==
    LET c == comps[j] IN
    IF c.sep = "/" THEN
        IF node.k \in {"fix", "del"}
        THEN IF node.members = <<>> THEN <<>>
             ELSE LET mp == MatchPositions(SubSeq(node.members, 1, node.nmem), c)
                      reps == IF mp = <<>> THEN <<>> ELSE EvalReps(node, mp, 1, comps, j + 1)
                  IN IF reps = <<>> THEN <<>> ELSE <<Open>> \o reps \o <<Close>>
        ELSE IF node.k \in {"seq", "root"} THEN EvalEach(node.members, MatchPositions(node.members, c), comps, j + 1)
        ELSE <<-8>>                                                      \* -8: no child nodes (a query error)
    ELSE \* attribute step: the factor of a delayed replication, then the attributes
        LET cands == node.factor \o node.attrs IN
        IF node.k \notin {"val", "del"} \/ (node.k = "val" /\ node.attrs = <<>>) THEN <<-8>>
        ELSE EvalEach(cands, MatchPositions(cands, c), comps, j + 1)

Root(tree) == [k |-> "root", id |-> "TEMPLATE", idx |-> 0, members |-> tree, factor |-> <<>>, attrs |-> <<>>, nmem |-> 0]
Result(tree, comps) == <<Open>> \o Eval(Root(tree), comps, 1) \o <<Close>>

(* ---- the paths that exist in a tree, to value nodes, up to a depth -------------------- *)
RECURSIVE PathsFrom(_, _)
Distinct(ns) == {ns[q].id : q \in 1..Len(ns)}
All == [kind |-> "all", i |-> 0, a |-> 0, b |-> 0, c |-> 0]
Step(sep, id) == [sep |-> sep, id |-> id, sl |-> All]
PathsFrom(node, depth) ==
    IF depth = 0 THEN {}
    ELSE LET kids == IF node.k \in {"fix", "del"} THEN SubSeq(node.members, 1, IF node.nmem <= Len(node.members) THEN node.nmem ELSE 0)
                     ELSE node.members
             viaChild == UNION {{<<Step("/", kids[q].id)>>} \cup {<<Step("/", kids[q].id)>> \o t : t \in PathsFrom(kids[q], depth - 1)} : q \in 1..Len(kids)}
             atts == node.factor \o node.attrs
             viaAttr == UNION {{<<Step(".", atts[q].id)>>} \cup {<<Step(".", atts[q].id)>> \o t : t \in PathsFrom(atts[q], depth - 1)} : q \in 1..Len(atts)}
         IN viaChild \cup viaAttr
(* a path is usable as a query when it starts with a child step *)
QueryPaths(tree, depth) == {t \in PathsFrom(Root(tree), depth) : t[1].sep = "/"}

(* the bare ID of an element: every flat position carrying that label, in order *)
BareId(o, id) == SelectSeq([q \in 1..Len(o) |-> q], LAMBDA q : o[q].lab = id)

(* subset selector: the subsets (0-based) an '@' selector designates among n *)
SelectSubsets(sl, n) == {q - 1 : q \in Picked(sl, n)}
=============================================================================
