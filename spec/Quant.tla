------------------------------- MODULE Quant -------------------------------
(***************************************************************************)
(* The value <-> raw relation of one numeric field (C03).                  *)
(*                                                                         *)
(* A case is an element with the operators in force: [id, dw (201), ds     *)
(* (202), y (207)].  Its effective width n, scale s and reference r come   *)
(* from the table files: n = width + dw + W207(y), s = scale + ds + y,     *)
(* r = reference * 10^y.                                                   *)
(*                                                                         *)
(* A user value is an exact decimal with ONE digit more than the scale:    *)
(* x = m / 10^(s+1), m an integer (so half-way cases exist).  Encoding x   *)
(* is a RELATION: the encoder may refuse, or it stores a scaled integer N  *)
(* with |10 N - m| <= 5 (half a unit of the last scaled digit, ties either *)
(* way) whose raw = N - r fits the field, 0 <= raw <= 2^n - 1.  What it    *)
(* must never do is store anything else - in particular not raw mod 2^n    *)
(* and not a clipped raw.  raw = 2^n - 1 (n > 1) reads back as missing:    *)
(* the one alteration FM-94 itself makes.                                  *)
(***************************************************************************)
EXTENDS Tables, Bits, FiniteSets

CONSTANTS QCases,      \* sequence of [id, dw, ds, y]
          Reach,       \* inputs are taken within +-Reach (in units of m) of every edge
          PairOffsets  \* a compressed column holds the input next to inputs m + k, k in PairOffsets

W207(y) == IF y = 0 THEN 0 ELSE (10 * y + 2) \div 3
Pow10(k) == 10 ^ k

N_(c) == BWidth(c.id) + c.dw + W207(c.y)
S_(c) == BScale(c.id) + c.ds + c.y
R_(c) == BRef(c.id) * Pow10(c.y)

MaxRaw(c) == 2 ^ N_(c) - 1

(* the edges around which inputs are taken, in units of m = 10 * scaled integer *)
Edges(c) == {10 * R_(c), 10 * (R_(c) + MaxRaw(c) - 1), 10 * (R_(c) + MaxRaw(c)), 0,
             10 * (R_(c) + 2 ^ (N_(c) - 1))}
Inputs(c) == UNION {{e + k : k \in (0 - Reach)..Reach} : e \in Edges(c)}

Abs(x) == IF x < 0 THEN 0 - x ELSE x
(* floor division that is correct for negative numbers *)
FloorDiv(a, b) == IF a >= 0 THEN a \div b ELSE 0 - ((0 - a + b - 1) \div b)

(* scaled integers within half a unit of m / 10 *)
Candidates(m) == {N \in {FloorDiv(m, 10) - 1, FloorDiv(m, 10), FloorDiv(m, 10) + 1} : Abs(10 * N - m) <= 5}
Fits(c, N) == 0 <= N - R_(c) /\ N - R_(c) <= MaxRaw(c)

(* what may be stored for input m: the set of permitted scaled integers (empty: must refuse) *)
Storable(c, m) == {N \in Candidates(m) : Fits(c, N)}
(* what the stored N reads back as *)
ReadsBack(c, N) == IF N_(c) > 1 /\ N - R_(c) = MaxRaw(c) THEN "missing" ELSE "value"

(* ---- 203YYY: a new reference value is a sign-and-magnitude field of YYY bits -------------------- *)
(* it holds v exactly when |v| <= 2^(YYY-1) - 1; anything else must be refused - the magnitude must not spill
   into the sign bit, and the value must not be reduced modulo anything *)
RefFits(y, v) == Abs(v) <= 2 ^ (y - 1) - 1
RefValues(y) == LET h == 2 ^ (y - 1) IN
    UNION {{x, 0 - x} : x \in {0, 1, h - 2, h - 1, h, h + 1, 2 * h - 2, 2 * h - 1, 2 * h, 2 * h + 1}}
RefWidths == {2, 3, 10, 16}
RECURSIVE SetToSeqQ(_)
SetToSeqQ(S) == IF S = {} THEN <<>> ELSE LET x == CHOOSE x \in S : TRUE IN <<x>> \o SetToSeqQ(S \ {x})
RefTable == SetToSeqQ({[y |-> y, v |-> v, fits |-> RefFits(y, v)] : y \in RefWidths, v \in UNION {RefValues(y) : y \in RefWidths}})
RefFitsIsSignMagnitude == \A y \in RefWidths : \A v \in RefValues(y) : RefFits(y, v) <=> (v \in (1 - 2 ^ (y - 1))..(2 ^ (y - 1) - 1))
ASSUME RefFitsIsSignMagnitude
ASSUME PrintT(ToJson([reftable |-> RefTable]))

(* ---- every width 1..64: range refusal stated on bit lengths ------------------------------------ *)
(* The cases above stay inside TLC's 32-bit integers.  The range rule itself needs no arithmetic: a field of n bits
   holds the raw value exactly when the value's bit length is at most n, and it reads back as missing exactly when it
   is n ones (n > 1).  Raw values travel as bit sequences (most significant bit first), taken around 2^n, 2^(n+1) and
   around every octet multiple 2^8, 2^16, ... 2^72 above the field - the places where an implementation that packs
   whole octets, or goes through a machine word or a double, would wrap instead of refusing. *)
WideWidths == 1..64
StripZ(bs) == IF SignificantBits(bs) = 0 THEN <<0>> ELSE LowBits(bs, SignificantBits(bs))
(* 2^e + k for -16 <= k <= 16 *)
Near(e, k) == IF e <= 20 THEN StripZ(UintBits(2 ^ e + k, e + 2))
              ELSE IF k >= 0 THEN <<1>> \o Zeros(e - 5) \o UintBits(k, 5)
              ELSE Ones(e - 5) \o UintBits(32 + k, 5)
WideOffsets == {-2, -1, 0, 1, 5}
WideExps(n) == {n - 1, n, n + 1} \cup {b \in {8, 16, 24, 32, 40, 48, 53, 56, 64, 72} : b > n}
WideRaws(n) == {Near(e, k) : e \in {x \in WideExps(n) : x >= 2}, k \in WideOffsets} \cup {<<0>>, <<1>>}
WideFits(n, raw) == SignificantBits(raw) <= n
WideMissing(n, raw) == n > 1 /\ Len(StripZ(raw)) = n /\ IsAllOnes(StripZ(raw))
(* the same rule stated as a comparison with 2^n *)
WideFitsIsBelowPow2 == \A n \in WideWidths : \A raw \in WideRaws(n) :
    WideFits(n, raw) <=> BLess(ZeroExtend(raw, 80), ZeroExtend(<<1>> \o Zeros(n), 80))
WideMissingIsTopOfRange == \A n \in WideWidths : \A raw \in WideRaws(n) :
    WideMissing(n, raw) <=> (n > 1 /\ WideFits(n, raw) /\ ~WideFits(n, BAdd(ZeroExtend(raw, 80), ZeroExtend(<<1>>, 80))))
ASSUME WideFitsIsBelowPow2
ASSUME WideMissingIsTopOfRange
WideRows(n) == SetToSeqQ({[raw |-> raw, fits |-> WideFits(n, raw), missing |-> WideMissing(n, raw)] : raw \in WideRaws(n)})
ASSUME \A n \in WideWidths : PrintT(ToJson([widetable |-> n, rows |-> WideRows(n)]))

VARIABLES ci, m
vars == <<ci, m>>

Init == ci \in 1..Len(QCases) /\ m \in Inputs(QCases[ci])
Next == UNCHANGED vars

C == QCases[ci]

(* ---- properties of the relation ------------------------------------------------ *)
TypeOK == N_(C) \in 1..30 /\ Cardinality(Candidates(m)) \in {1, 2}

(* a value on the grid (an exact multiple of the unit) has exactly one permitted image: itself *)
ExactOnGrid == (m % 10 = 0) => Candidates(m) = {m \div 10} \/ (m < 0 /\ Candidates(m) = {FloorDiv(m, 10)})

HalfUnit == \A N \in Storable(C, m) : Abs(10 * N - m) <= 5

(* never wrap, never clip: nothing outside the field's range is storable, and an input with no image
   in range has no storable image at all - it must be refused *)
NeverWrapNorClip == \A N \in Storable(C, m) : N - R_(C) \in 0..MaxRaw(C)
OutOfRangeMustBeRefused ==
    (m > 10 * (R_(C) + MaxRaw(C)) + 5 \/ m < 10 * R_(C) - 5) => Storable(C, m) = {}

(* decode(encode(v)) lies on the grid, so encoding it again stores the same integer: canonical fixpoint *)
FixpointOnGrid == \A N \in Storable(C, m) : Storable(C, 10 * N) = {N}

(* ---- compressed columns: the relation is POINTWISE ------------------------------------------ *)
(* In compressed data the values of one element travel as minimum + differences.  That is a matter
   of representation only: what may be stored for one subset's input does not depend on what the
   other subsets hold.  A column is therefore judged entry by entry with Candidates - in particular
   when minimum and value are both off the grid and round in opposite directions.
   (Storable is not demanded of compressed entries: a column is not confined to the field's range
   by FM-94, only its minimum is.) *)
Partner(k) == [k |-> k, m |-> m + k, cand |-> Candidates(m + k), storable |-> Storable(C, m + k)]
Partners == [k \in PairOffsets |-> Partner(k)]
PointwiseColumn == \A k \in PairOffsets : \A N \in Partners[k].cand : Abs(10 * N - (m + k)) <= 5

Case == [id |-> C.id, dw |-> C.dw, ds |-> C.ds, y |-> C.y, n |-> N_(C), s |-> S_(C), r |-> R_(C), m |-> m,
         storable |-> Storable(C, m), cand |-> Candidates(m),
         missing |-> {N \in Storable(C, m) : ReadsBack(C, N) = "missing"},
         partners |-> [i \in 1..Cardinality(PairOffsets) |->
                         Partner(CHOOSE k \in PairOffsets : Cardinality({j \in PairOffsets : j < k}) = i - 1)]]
Emit == PrintT(ToJson(Case))
=============================================================================
