----------------------------- MODULE FramingSM -----------------------------
(***************************************************************************)
(* Length accounting of a BUFR message in both directions (C04).           *)
(*                                                                         *)
(* WRITER.  The sections are written one after the other (one action per   *)
(* section).  Each section is its content, zero-padded to whole octets and *)
(* - up to edition 3 - to an even number of octets.  Under the policy      *)
(* "recompute" the length field is the real extent.  Under "honour" the    *)
(* declared length given with the input wins: 0 means "compute", a longer  *)
(* declared section is filled with zero octets, a shorter one is refused;  *)
(* the declared total length must equal what was written.                  *)
(*                                                                         *)
(* READER.  A message (possibly foreign: sections may carry surplus        *)
(* octets) is consumed section by section: every section is entered at the *)
(* end of the previous one and left at start + declared length; what lies  *)
(* between the end of the content and the declared end is skipped.  A      *)
(* declared length that is shorter than the content is an error.  The      *)
(* message's own octets are the span BUFR .. 7777 whatever follows - and  *)
(* whatever precedes: the reader starts at the first start signature.      *)
(*                                                                         *)
(* OVERRIDE.  The writer may be told a master table version that replaces  *)
(* the one given with the input (Encoder(master_table_version=..)): the    *)
(* octet in section 1 is then the override, nothing else changes.          *)
(*                                                                         *)
(* Data sections are nb one-bit flags (template 1 01 nb, 0 31 031) so that *)
(* every bit length can be produced; the bits alternate 1 0 1 0 ...        *)
(***************************************************************************)
EXTENDS Framing, TLC, Json, FiniteSets

CONSTANTS EditionsC,      \* subset of {2,3,4}
          Sec2Lens,       \* subset of -1..n : -1 = no section 2, k = k local octets
          DataBits,       \* set of data lengths nb (bits)
          ExtraOps,       \* set of numbers of additional no-op descriptors (201000)
          Surplus,        \* set of declared-minus-real lengths offered for sections 1..4 (e.g. {-1,0,1,2})
          MaxChanged      \* at most this many sections get a non-zero surplus at once

VARIABLES ed, l2, nb, xo, policy, sur, totmode, trailing, shrink, leading, ovr,  \* chosen in Init
          stage,      \* writer: 0..6 sections written; 7 = total patched / checked; then reader 8..14
          octs,       \* octets written so far
          starts,     \* start offset (0-based) of every section written
          outcome,    \* "" | "Refuse" | "Done"
          rpos, rerr, rlen   \* reader: position, error flag, declared lengths seen

vars == <<ed, l2, nb, xo, policy, sur, totmode, trailing, shrink, leading, ovr, stage, octs, starts, outcome, rpos, rerr, rlen>>

Ids == (IF nb = 0 THEN <<201000>> ELSE <<101000 + nb, 31031>>) \o [i \in 1..xo |-> 201000]
DataBitsSeq == [i \in 1..nb |-> i % 2]
Has2 == l2 >= 0
F == IF ovr = 0 THEN Ident0 ELSE [Ident0 EXCEPT !.mversion = ovr]

(* content octets of section i (1..4) WITHOUT the three length octets, not padded *)
Content(i) ==
    CASE i = 1 -> Sec1Body(ed, F, Has2)
      [] i = 2 -> <<0>> \o [k \in 1..l2 |-> 170]            \* local octets 10101010
      [] i = 3 -> <<0>> \o U(1, 2) \o <<128>> \o DescListOctets(Ids)
      [] i = 4 -> <<0>> \o DataOctets(DataBitsSeq)

Present(i) == i # 2 \/ Has2
RealLen(i) == LET n == 3 + Len(Content(i)) IN IF ed <= 3 /\ n % 2 = 1 THEN n + 1 ELSE n
Declared(i) == RealLen(i) + sur[i]           \* what the input declares under "honour" (sur = 99: declares 0)
DeclaredOrZero(i) == IF sur[i] = 99 THEN 0 ELSE Declared(i)

(* the octets of section i as the writer emits them, or <<>> with refusal *)
WrittenLen(i) ==
    IF policy = "recompute" \/ sur[i] = 99 THEN RealLen(i)
    ELSE IF Declared(i) >= RealLen(i) THEN Declared(i) ELSE -1
SectionOctets(i) ==
    LET n == WrittenLen(i) IN U(n, 3) \o Content(i) \o [k \in 1..(n - 3 - Len(Content(i))) |-> 0]

SumLens == LET RECURSIVE S(_)
               S(i) == IF i > 4 THEN 0 ELSE (IF Present(i) THEN WrittenLen(i) ELSE 0) + S(i + 1)
           IN 8 + S(1) + 4

Init ==
    /\ ed \in EditionsC /\ l2 \in Sec2Lens /\ nb \in DataBits /\ xo \in ExtraOps
    /\ policy \in {"recompute", "honour"}
    /\ sur \in {s \in [1..4 -> Surplus \cup {99}] :
                   /\ Cardinality({i \in 1..4 : s[i] # 0}) <= MaxChanged
                   /\ (~Has2 => s[2] = 0)
                   \* two spare octets in section 3 ARE another descriptor (count = (length - 7) \div 2); up to
                   \* edition 3 the pad octet already is one spare octet
                   /\ s[3] \in (IF ed <= 3 THEN {-1, 0, 99} ELSE {-1, 0, 1, 99})}
    /\ totmode \in {"zero", "exact", "off"}          \* declared total: 0, the right number, or one too many
    /\ trailing \in {<<>>, <<13, 10, 66, 85>>}
    \* bytes in front of the message (a bulletin heading that ends in a partial signature); only with the plain writer
    /\ leading \in (IF policy = "recompute" /\ \A i \in 1..4 : sur[i] = 0 THEN {<<>>, <<1, 13, 13, 10, 48, 49, 66, 85, 70>>} ELSE {<<>>})
    \* master table version forced by the writer's option (0: none)
    /\ ovr \in (IF policy = "recompute" /\ (\A i \in 1..4 : sur[i] = 0) /\ trailing = <<>> THEN {0, 14, 35} ELSE {0})
    /\ (policy = "recompute" => totmode = "zero")
    \* a damaged copy for the reader: the declared length of section 1 or 4 made one octet shorter
    \* 5: the last octet of section 4 is REMOVED and every length adjusted - a consistent message whose data
    \*    section may now be shorter than what the template consumes (an overrun of 1..8 bits)
    /\ shrink \in (IF policy = "recompute" /\ \A i \in 1..4 : sur[i] = 0 THEN {0, 1, 4, 5} ELSE {0})
    /\ stage = 0 /\ octs = <<>> /\ starts = <<>> /\ outcome = "" /\ rpos = 0 /\ rerr = FALSE /\ rlen = <<>>

Writing == outcome = "" /\ stage <= 6

WriteSection0 ==
    /\ Writing /\ stage = 0
    /\ octs' = BUFR \o <<0, 0, 0>> \o <<ed>>              \* total length is patched at the end
    /\ starts' = <<0>> /\ stage' = 1
    /\ UNCHANGED <<ed, l2, nb, xo, policy, sur, totmode, trailing, shrink, leading, ovr, outcome, rpos, rerr, rlen>>

WriteSection(i) ==
    /\ Writing /\ stage = i /\ i \in 1..4
    /\ IF ~Present(i) THEN /\ stage' = i + 1 /\ starts' = Append(starts, Len(octs))
                           /\ UNCHANGED <<octs, outcome>>
       ELSE IF WrittenLen(i) < 0 THEN /\ outcome' = "Refuse" /\ UNCHANGED <<octs, starts, stage>>
       ELSE /\ octs' = octs \o SectionOctets(i)
            /\ starts' = Append(starts, Len(octs))
            /\ stage' = i + 1 /\ UNCHANGED outcome
    /\ UNCHANGED <<ed, l2, nb, xo, policy, sur, totmode, trailing, shrink, leading, ovr, rpos, rerr, rlen>>

WriteSection5 ==
    /\ Writing /\ stage = 5
    /\ octs' = octs \o SEVENS /\ starts' = Append(starts, Len(octs)) /\ stage' = 6
    /\ UNCHANGED <<ed, l2, nb, xo, policy, sur, totmode, trailing, shrink, leading, ovr, outcome, rpos, rerr, rlen>>

(* the total length is back-patched (recompute, or declared 0) or checked against the declaration *)
PatchTotal ==
    /\ Writing /\ stage = 6
    /\ LET n == Len(octs)
           patched == SubSeq(octs, 1, 4) \o U(n, 3) \o SubSeq(octs, 8, n)
       IN IF totmode = "off" THEN outcome' = "Refuse" /\ UNCHANGED octs
          ELSE octs' = patched /\ outcome' = "Done"
    /\ stage' = 7
    /\ UNCHANGED <<ed, l2, nb, xo, policy, sur, totmode, trailing, shrink, leading, ovr, starts, rpos, rerr, rlen>>

(* ---- reader: over the written message followed by the trailing bytes ----------- *)
Shrunk == IF shrink = 0 THEN octs
          ELSE IF shrink = 5 THEN
               LET at == starts[5]            \* section 4
                   n == Len(octs)
                   cut == SubSeq(octs, 1, starts[6] - 1) \o SubSeq(octs, starts[6] + 1, n)     \* without the octet before 7777
               IN SubSeq(cut, 1, 4) \o U(n - 1, 3) \o SubSeq(cut, 8, at) \o U(U3(octs, at) - 1, 3) \o SubSeq(cut, at + 4, n - 1)
          ELSE LET at == starts[shrink + 1] IN SubSeq(octs, 1, at) \o U(U3(octs, at) - 1, 3) \o SubSeq(octs, at + 4, Len(octs))
Input == leading \o Shrunk \o trailing
(* offset of the first start signature in the input: where the reader begins *)
Base == CHOOSE i \in 0..(Len(Input) - 4) : SubSeq(Input, i + 1, i + 4) = BUFR /\ \A j \in 0..(i - 1) : SubSeq(Input, j + 1, j + 4) # BUFR
Reading == outcome = "Done" /\ stage >= 7 /\ stage <= 13 /\ ~rerr
ContentBits(i) == IF i = 4 THEN 8 * 4 + nb ELSE 8 * (3 + Len(Content(i)))

ReadSection0 ==
    /\ Reading /\ stage = 7
    /\ rpos' = Base + 8 /\ stage' = 8 /\ rlen' = <<U3(Input, Base + 4)>>
    /\ rerr' = FALSE
    /\ UNCHANGED <<ed, l2, nb, xo, policy, sur, totmode, trailing, shrink, leading, ovr, octs, starts, outcome>>

ReadSection(i) ==
    /\ Reading /\ stage = 7 + i /\ i \in 1..4
    /\ IF ~Present(i) THEN rpos' = rpos /\ rlen' = Append(rlen, 0) /\ rerr' = FALSE
       ELSE LET n == U3(Input, rpos) IN
            /\ rlen' = Append(rlen, n)
            /\ rerr' = (8 * n < ContentBits(i))          \* declared shorter than the content
            /\ rpos' = rpos + n                           \* surplus octets are skipped
    /\ stage' = stage + 1
    /\ UNCHANGED <<ed, l2, nb, xo, policy, sur, totmode, trailing, shrink, leading, ovr, octs, starts, outcome>>

ReadSection5 ==
    /\ Reading /\ stage = 12
    /\ rerr' = (SubSeq(Input, rpos + 1, rpos + 4) # SEVENS)
    /\ rpos' = rpos + 4 /\ stage' = 13
    /\ UNCHANGED <<ed, l2, nb, xo, policy, sur, totmode, trailing, shrink, leading, ovr, octs, starts, outcome, rlen>>

Next == WriteSection0 \/ (\E i \in 1..4 : WriteSection(i)) \/ WriteSection5 \/ PatchTotal
        \/ ReadSection0 \/ (\E i \in 1..4 : ReadSection(i)) \/ ReadSection5

Finished == outcome = "Refuse" \/ rerr \/ stage = 13

(* ---- properties ----------------------------------------------------------------- *)
Written == outcome = "Done"
StartsAndEnds == Written => SubSeq(octs, 1, 4) = BUFR /\ SubSeq(octs, Len(octs) - 3, Len(octs)) = SEVENS
TotalEqualsBytes == Written => U3(octs, 4) = Len(octs) /\ Len(octs) = SumLens
DeclaredEqualsExtent ==
    Written => \A i \in 1..4 : Present(i) =>
        /\ U3(octs, starts[i + 1]) = WrittenLen(i)
        /\ starts[i + 2] - starts[i + 1] = WrittenLen(i)
(* everything between the end of a section's content and its end is zero *)
PadOnlyZeros ==
    Written => \A i \in 1..4 : Present(i) =>
        \A k \in (starts[i + 1] + 3 + Len(Content(i)) + 1)..starts[i + 2] : octs[k] = 0
DataPaddingBitsZero ==
    Written => \A b \in (8 * (starts[5] + 4) + nb + 1)..(8 * starts[6]) : BitOf(octs, b) = 0
EvenUpToEdition3 ==
    (Written /\ ed <= 3 /\ policy = "recompute") => \A i \in 1..4 : Present(i) => WrittenLen(i) % 2 = 0
HonourRefusesShorter ==
    (policy = "honour" /\ \E i \in 1..4 : Present(i) /\ sur[i] # 99 /\ sur[i] < 0) => outcome # "Done"
HonourFillsLonger ==
    (Written /\ policy = "honour") => \A i \in 1..4 : (Present(i) /\ sur[i] \in 1..98) => WrittenLen(i) = RealLen(i) + sur[i]
(* removing the last octet of section 4 is harmless exactly when the data still fit (a pad octet went) *)
TruncatedDataIsError == (shrink = 5 /\ stage = 13) => (rerr <=> 8 * (WrittenLen(4) - 1) < 8 * 4 + nb)
ReaderConsumesExactly == (stage = 13 /\ ~rerr /\ shrink = 0) => rpos = Len(leading) + Len(octs) /\ rlen[1] = Len(octs)
ReaderStartsAtMessage == stage >= 8 => Base = Len(leading)
OverrideOnlyChangesVersion == (Written /\ ovr # 0) => octs[8 + (IF ed = 4 THEN 14 ELSE 11)] = ovr
ReaderNeverFailsOnWritten == (stage >= 7 /\ shrink = 0) => ~rerr        \* what the writer emits, the reader accepts
ShortDeclaredIsError == (shrink \in {1, 4} /\ stage = 13) => rerr             \* a shrunk section never reads through

Case == [leading |-> leading, ovr |-> ovr, ed |-> ed, l2 |-> l2, nb |-> nb, xo |-> xo, ids |-> Ids, policy |-> policy, sur |-> sur, totmode |-> totmode,
         trailing |-> trailing, outcome |-> outcome, shrink |-> shrink, input |-> IF outcome = "Done" THEN Input ELSE <<>>, rerr |-> rerr,
         declared |-> [i \in 1..4 |-> IF Present(i) THEN DeclaredOrZero(i) ELSE 0],
         real |-> [i \in 1..4 |-> IF Present(i) THEN RealLen(i) ELSE 0],
         written |-> [i \in 1..4 |-> IF Present(i) THEN WrittenLen(i) ELSE 0],
         total |-> SumLens, octs |-> octs, bits |-> DataBitsSeq]
Emit == Finished => PrintT(ToJson(Case))
=============================================================================
