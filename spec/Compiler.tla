------------------------------ MODULE Compiler ------------------------------
(***************************************************************************)
(* Template compilation (C08).                                             *)
(*                                                                         *)
(* A compiled template resolves the effect of the data description         *)
(* operators ONCE, in a single straight-line pass in which every           *)
(* replication body is visited exactly once.  That is the same as walking  *)
(* the template (FM94.tla) whenever the registers such a pass sees at an   *)
(* instruction are the registers every repetition sees there, i.e. when    *)
(*   - every replication body leaves the operator registers as it found    *)
(*     them (operators opened in the body are closed in the body), and     *)
(*   - no 221 count-down is running when a replication body is entered.    *)
(* Scoped(p) is that condition; it is the precise form of "operators are   *)
(* opened and closed within one replication scope".  For scoped templates  *)
(* the property demands that the compiled path behaves as FM94.tla says;   *)
(* for unscoped ones nothing is demanded (and the model shows that single- *)
(* pass and walk really differ there: NonVacuous).                         *)
(*                                                                         *)
(* The second part is the compiled-template cache: get-or-compile with a   *)
(* bound on the number of entries and eviction of an arbitrary entry.      *)
(***************************************************************************)
EXTENDS Tables, FiniteSets

CONSTANTS Progs,        \* sequence of descriptor lists
          CacheMax,     \* cache bound of the cache model (0 = nothing is kept)
          Keys,         \* keys requested in the cache model
          MaxOps        \* length of request histories

(* ---- the operator registers a single pass tracks ---------------------------------- *)
S0 == [dw |-> 0, ds |-> 0, y207 |-> 0, strw |-> 0, assoc |-> <<>>, rvw |-> 0, skipw |-> 0, dnp |-> 0, refs |-> {}]

OpEffect(r, id) ==
    LET x == id \div 1000 y == id % 1000 IN
    CASE x = 201 -> [r EXCEPT !.dw = IF y = 0 THEN 0 ELSE y - 128]
      [] x = 202 -> [r EXCEPT !.ds = IF y = 0 THEN 0 ELSE y - 128]
      [] x = 203 -> IF y = 255 THEN [r EXCEPT !.rvw = 0] ELSE IF y = 0 THEN [r EXCEPT !.rvw = 0, !.refs = {}] ELSE [r EXCEPT !.rvw = y]
      [] x = 204 -> IF y = 0 THEN [r EXCEPT !.assoc = IF @ = <<>> THEN <<>> ELSE SubSeq(@, 1, Len(@) - 1)] ELSE [r EXCEPT !.assoc = Append(@, y)]
      [] x = 206 -> [r EXCEPT !.skipw = y]
      [] x = 207 -> [r EXCEPT !.y207 = y]
      [] x = 208 -> [r EXCEPT !.strw = y]
      [] x = 221 -> [r EXCEPT !.dnp = y]
      [] OTHER -> r

RECURSIVE Pass(_, _, _, _)
(* registers after a single pass over program positions i..stop-1, every body visited once *)
Pass(p, i, stop, r) ==
    IF i >= stop THEN r
    ELSE LET ins == p[i]
             r1 == IF r.dnp > 0 THEN [r EXCEPT !.dnp = @ - 1] ELSE r
         IN IF r1.skipw > 0 /\ ins.k # "O" THEN Pass(p, i + 1 + ins.span + (IF ins.k = "D" THEN 1 ELSE 0), stop, [r1 EXCEPT !.skipw = 0])
            ELSE IF ins.k = "O" THEN Pass(p, i + 1, stop, OpEffect(r1, ins.id))
            ELSE IF ins.k = "E" THEN Pass(p, i + 1, stop, IF r1.rvw > 0 THEN [r1 EXCEPT !.refs = @ \cup {ins.id}] ELSE r1)
            ELSE Pass(p, i + 1, stop, r1)        \* S, R, D, F: the body follows in line and is passed once

(* registers when the single pass reaches position i *)
At(p, i) == Pass(p, 1, i, S0)

BodyRange(p, i) == IF p[i].k = "R" THEN <<i + 1, i + 1 + p[i].span>> ELSE <<i + 2, i + 2 + p[i].span>>
Neutral(p, i) ==
    LET b == BodyRange(p, i)
        rin == At(p, b[1])
    IN /\ At(p, i).dnp = 0                          \* (the register before the replication descriptor itself is counted)
       /\ rin.dnp = 0
       /\ Pass(p, b[1], b[2], rin) = rin
Scoped(p) == \A i \in 1..Len(p) : p[i].k \in {"R", "D"} => Neutral(p, i)

(* ---- the cache ------------------------------------------------------------------------ *)
VARIABLES pid, cache, hist
vars == <<pid, cache, hist>>

Init == pid \in 0..Len(Progs) /\ cache = {} /\ hist = <<>>

(* get-or-compile: a hit returns the entry; a miss compiles, evicts an arbitrary entry when the cache is
   full, and keeps the new entry unless the bound is 0 *)
Get(k) ==
    /\ pid = 0 /\ Len(hist) < MaxOps
    /\ IF k \in cache THEN cache' = cache /\ hist' = Append(hist, [k |-> k, hit |-> TRUE])
       ELSE /\ hist' = Append(hist, [k |-> k, hit |-> FALSE])
            /\ IF CacheMax = 0 THEN cache' = cache
               ELSE IF Cardinality(cache) >= CacheMax THEN \E e \in cache : cache' = (cache \ {e}) \cup {k}
               ELSE cache' = cache \cup {k}
    /\ UNCHANGED pid
Next == \E k \in Keys : Get(k)

SizeBounded == Cardinality(cache) <= CacheMax
(* an entry is only ever stored under the key it was compiled for: abstractly the cache is a set of keys,
   so a hit for k can only return what was compiled for k - the implementation is held to that by replay *)
HitOnlyAfterMiss == \A i \in 1..Len(hist) : hist[i].hit => \E j \in 1..(i - 1) : hist[j].k = hist[i].k /\ ~hist[j].hit

EmitScoped == pid > 0 => PrintT(ToJson([pid |-> pid, ids |-> Progs[pid], scoped |-> Scoped(Build(Progs[pid]))]))
EmitHistory == (pid = 0 /\ Len(hist) = MaxOps) => PrintT(ToJson([hist |-> hist, cache |-> cache]))
=============================================================================
