------------------------------ MODULE Compiler ------------------------------
(***************************************************************************)
(* Template compilation (C08).                                             *)
(*                                                                         *)
(* A compiled template resolves the effect of the data description         *)
(* operators ONCE, in a single straight-line pass in which every           *)
(* replication body is visited exactly once.  That is the same as walking  *)
(* the template (FM94.tla) whenever the registers such a pass sees at an   *)
(* instruction are the registers every repetition sees there, i.e. when    *)
(*   - every replication body leaves the operator registers as it found    *)
(*     them (operators opened in the body are closed in the body), and     *)
(*   - no 221 count-down is running when a replication body is entered.    *)
(* Scoped(p) is that condition; it is the precise form of "operators are   *)
(* opened and closed within one replication scope".  For scoped templates  *)
(* the property demands that the compiled path behaves as FM94.tla says;   *)
(* for unscoped ones nothing is demanded (and the model shows that single- *)
(* pass and walk really differ there: NonVacuous).                         *)
(*                                                                         *)
(* The second part is the compiled-template cache: get-or-compile with a   *)
(* bound on the number of entries and eviction of an arbitrary entry.      *)
(***************************************************************************)
EXTENDS Scope

CONSTANTS Progs,        \* sequence of descriptor lists
          CacheMax,     \* cache bound of the cache model (0 = nothing is kept)
          Keys,         \* keys requested in the cache model
          MaxOps        \* length of request histories

(* ---- the cache ------------------------------------------------------------------------ *)
VARIABLES pid, cache, hist
vars == <<pid, cache, hist>>

Init == pid \in 0..Len(Progs) /\ cache = {} /\ hist = <<>>

(* get-or-compile: a hit returns the entry; a miss compiles, evicts an arbitrary entry when the cache is
   full, and keeps the new entry unless the bound is 0 *)
Get(k) ==
    /\ pid = 0 /\ Len(hist) < MaxOps
    /\ IF k \in cache THEN cache' = cache /\ hist' = Append(hist, [k |-> k, hit |-> TRUE])
       ELSE /\ hist' = Append(hist, [k |-> k, hit |-> FALSE])
            /\ IF CacheMax = 0 THEN cache' = cache
               ELSE IF Cardinality(cache) >= CacheMax THEN \E e \in cache : cache' = (cache \ {e}) \cup {k}
               ELSE cache' = cache \cup {k}
    /\ UNCHANGED pid
Next == \E k \in Keys : Get(k)

SizeBounded == Cardinality(cache) <= CacheMax
(* an entry is only ever stored under the key it was compiled for: abstractly the cache is a set of keys,
   so a hit for k can only return what was compiled for k - the implementation is held to that by replay *)
HitOnlyAfterMiss == \A i \in 1..Len(hist) : hist[i].hit => \E j \in 1..(i - 1) : hist[j].k = hist[i].k /\ ~hist[j].hit

EmitScoped == pid > 0 => PrintT(ToJson([pid |-> pid, ids |-> Progs[pid], scoped |-> Scoped(Build(Progs[pid]))]))
EmitHistory == (pid = 0 /\ Len(hist) = MaxOps) => PrintT(ToJson([hist |-> hist, cache |-> cache]))
=============================================================================
