"""Binding of Stream.tla to generate_bufr_message: every terminal state of the specification (a stream,
a mode, the expected sequence of delivered spans, the end status and the per-iteration history) is run
through the real scanner with hooks on; delivered bytes, end status, exception type and the cursor
arithmetic of every loop iteration are compared."""
import os
import subprocess
import sys

from . import tlc
from .common import REPO, PY, MachineryError

FILTER = '${%edition} == 4'
FILTER_ED4_ONLY = '${%data_i18n_subcategory} == 0'      # a parameter that only edition 4 has
ALL_MODES = '{[info |-> i, cont |-> c, filt |-> f, ive |-> FALSE] : i \\in BOOLEAN, c \\in BOOLEAN, f \\in BOOLEAN}'
IVE_MODES = '{[info |-> FALSE, cont |-> c, filt |-> f, ive |-> TRUE] : c \\in BOOLEAN, f \\in BOOLEAN}'
INVS = ['YieldsExactlyMessages', 'NeverRaisesOnValid', 'DecoyNeverStartsMessage', 'ContinueSkipsOnlyDamaged',
        'NoContinueDeliversPrefixThenError', 'YieldedSpansAreDisjointAndOrdered', 'NoPrefixDecodes', 'IveWaivesOnlyStop', 'Emit']


def tlc_run(wd, name, maxmsgs, pool, seps, faults, modes=ALL_MODES, uniform=False, cuts=False, timeout=3000, sweep=(1, 0, 1)):
    consts = {'MaxMsgs': str(maxmsgs), 'PoolIdx': '{' + ','.join(map(str, pool)) + '}',
              'SepIdx': '{' + ','.join(map(str, seps)) + '}',
              'Faults': '{' + ','.join('"%s"' % f for f in faults) + '}', 'Modes': modes,
              'UniformSeps': 'TRUE' if uniform else 'FALSE', 'WithCuts': 'TRUE' if cuts else 'FALSE',
              'SweepLo': str(sweep[0]), 'SweepHi': str(sweep[1]), 'SweepChunk': str(sweep[2])}
    text = tlc.mc_module(name, ['Stream'], consts)
    cfg = tlc.mc_cfg(consts, invariants=INVS)
    res = tlc.run(wd, name, cfg, text, coverage=False, lazy_emitted=True, timeout=timeout)
    tlc.require_ok(res, name)
    return res


def run_case(c, decoder=None):
    """Returns None or (signature, detail)."""
    import contextlib
    import io
    from pybufrkit import _verif
    from pybufrkit.decoder import Decoder, generate_bufr_message
    from pybufrkit.errors import PyBufrKitError
    data = bytes(c['stream'])
    mode = c['mode']
    feat = '%s,%s,%s' % ('info' if mode['info'] else 'full', 'cont' if mode['cont'] else 'stop', 'filter' if mode['filt'] else 'nofilter')
    if mode.get('ive'):
        feat += ',ive'
    extra = {'ignore_value_expectation': True} if mode.get('ive') else {}
    faults = ','.join(sorted(f for f in c['faults'] if f != 'none')) or 'valid'
    del _verif.EVENTS[:]
    got = []
    status = 'done'
    errtype = ''
    try:
        with contextlib.redirect_stderr(io.StringIO()):
            for m in generate_bufr_message(decoder or Decoder(), data, info_only=mode['info'], continue_on_error=mode['cont'],
                                           filter_expr=c.get('filter', FILTER) if mode['filt'] else None, **extra):
                got.append(bytes(m.serialized_bytes))
    except PyBufrKitError as e:
        status = 'raised'
        errtype = type(e).__name__
        try:
            str(e), repr(e), getattr(e, 'message', '')          # a library error that cannot be reported is no report
        except Exception as e2:
            return (('scan', 'error-text', type(e2).__name__, faults), '%s: the error raised cannot be rendered as text: %r' % (feat, e2))
    except Exception as e:
        return (('scan', 'exception-type', type(e).__name__, faults), '%s: scanning raised %r (not the library error type)' % (feat, e))
    events = list(_verif.EVENTS)
    del _verif.EVENTS[:]
    want = [data[y['at']: y['at'] + y['len']] for y in c['yielded']]
    if got != want:
        k = next((i for i in range(min(len(got), len(want))) if got[i] != want[i]), min(len(got), len(want)))
        return (('scan', 'yielded', 'differ', faults + '|' + feat),
                'delivered %d messages, specification %d; first difference at #%d (got %s, expected %s)' % (
                    len(got), len(want), k, 'len %d' % len(got[k]) if k < len(got) else 'nothing',
                    'len %d at %d' % (c['yielded'][k]['len'], c['yielded'][k]['at']) if k < len(want) else 'nothing'))
    if status != c['status']:
        return (('scan', 'end-status', '%s-instead-of-%s' % (status, c['status']), faults + '|' + feat),
                'scan ended %s, specification %s' % (status, c['status']))
    # ---- per-iteration trace: the hooks log find / ok / error with the cursor
    it = []
    at = None
    for e in events:
        if e.get('a') == 'scan_find':
            at = e['at']
        elif e.get('a') == 'scan_ok':
            it.append({'at': at, 'next': e['next'], 'act': 'yield' if e['matched'] else 'filtered'})
        elif e.get('a') == 'scan_error':
            it.append({'at': at, 'next': e['next'], 'act': 'skip'})
    hist = [h for h in c['hist'] if h['act'] != 'raise']
    if it != hist:
        k = next((i for i in range(min(len(it), len(hist))) if it[i] != hist[i]), min(len(it), len(hist)))
        return (('scan', 'iteration', 'cursor', faults + '|' + feat),
                'iteration %d: implementation %r, specification %r' % (k, it[k] if k < len(it) else None, hist[k] if k < len(hist) else None))
    return None


def _work(cs):
    return [run_case(c) for c in cs]


def _work_shared(cs):
    from pybufrkit.decoder import Decoder
    dec = Decoder()
    return [run_case(c, decoder=dec) for c in cs]


def replay_cases_shared(run, cases, prefix, chunk=60):
    """The cases of a chunk through ONE Decoder object, in the order given (the caller interleaves modes): what a scan does to
    the decoder - options of that call, a failure half way through a message - must not reach the next scan."""
    import multiprocessing as mp
    from . import fm94
    chunks = [cases[i:i + chunk] for i in range(0, len(cases), chunk)]
    if not chunks:
        return
    with mp.get_context('fork').Pool(14, initializer=fm94._init_worker) as pool:
        out = [x for c in pool.map(_work_shared, chunks) for x in c]
    for c, bad in zip(cases, out):
        run.traces += 1
        if bad:
            run.violation((prefix, 'shared-decoder') + tuple(bad[0]), 'one Decoder for a series of scans: ' + bad[1],
                          {'kind': 'stream', 'case': c, 'note': 'needs the earlier scans of the series on the same Decoder object'})


def _work_after_definitions(cs):
    """The cases of a chunk in a process that has read table-definition messages from a stream before (the prepbufr sample): an
    undefined descriptor is still undefined, damage is still damage."""
    import contextlib
    import io
    from pybufrkit.decoder import Decoder, generate_bufr_message
    with open(os.path.join(REPO, 'tests', 'data', 'prepbufr.bufr'), 'rb') as f:
        data = f.read()
    with contextlib.redirect_stderr(io.StringIO()):
        for k, m in enumerate(generate_bufr_message(Decoder(), data)):
            if k >= 2:
                break
    return [run_case(c) for c in cs]


def replay_cases_after_definitions(run, cases, prefix, chunk=80):
    import multiprocessing as mp
    from . import fm94
    chunks = [cases[i:i + chunk] for i in range(0, len(cases), chunk)]
    if not chunks:
        return
    with mp.get_context('fork').Pool(14, initializer=fm94._init_worker) as pool:
        out = [x for c in pool.map(_work_after_definitions, chunks) for x in c]
    for c, bad in zip(cases, out):
        run.traces += 1
        if bad:
            run.violation((prefix, 'after-definitions') + tuple(bad[0]), 'in a process that has read in-stream table definitions: ' + bad[1],
                          {'kind': 'stream', 'case': c, 'note': 'needs a table-definition message (tests/data/prepbufr.bufr) scanned in the same process first'})


def replay_cases(run, cases, prefix):
    import multiprocessing as mp
    from . import fm94
    chunks = [cases[i:i + 200] for i in range(0, len(cases), 200)]
    if not chunks:
        return
    with mp.get_context('fork').Pool(14, initializer=fm94._init_worker) as pool:
        out = [x for c in pool.map(_work, chunks) for x in c]
    for c, bad in zip(cases, out):
        run.traces += 1
        run.nontriv(case_key(c))
        if bad:
            run.violation((prefix,) + tuple(bad[0]), bad[1], {'kind': 'stream', 'case': c})


def case_key(c):
    return (tuple((s['kind'], s['k'], s['fault'], s['cut']) for s in c['layout']), c['mode']['info'], c['mode']['cont'], c['mode']['filt'])


def brief(c):
    return {'layout': [(s['kind'], s['k'], s['fault']) + ((s['cut'],) if s['cut'] else ()) for s in c['layout']], 'mode': c['mode'],
            'stream_octets': len(c['stream']), 'yielded': c['yielded'], 'status': c['status'], 'iterations': c['hist']}


def cli(args, cwd=None):
    env = dict(os.environ)
    env['PYTHONPATH'] = REPO
    env.pop('YWANGD_PYBUFRKIT_VERIF', None)
    p = subprocess.run([PY, '-m', 'pybufrkit'] + args, cwd=cwd, env=env, stdout=subprocess.PIPE, stderr=subprocess.PIPE, timeout=120)
    return p.returncode, p.stdout.decode('latin-1'), p.stderr.decode('latin-1')
