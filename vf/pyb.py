"""Thin adapters around pybufrkit: build the encoder's flat-JSON input from scratch, project
decoded messages to the abstract state the specifications talk about.

Nothing here computes an expected value; it only moves data in and out of the implementation.
"""
from fractions import Fraction

IDENT0 = dict(master=0, centre=0, subcentre=0, update=0, category=0, intlsub=0, localsub=0,
              mversion=33, lversion=0, year=2020, month=1, day=2, hour=3, minute=4, second=5)


def flat_json(ed, ids, nsub, cmp_, subsets, ident=None, sec2=None, lengths=None):
    """The list-of-sections input of Encoder.process.  `subsets` = list of value lists.
    lengths: optional dict {0: total, 1: .., 2: .., 3: .., 4: ..} of declared lengths (default 0)."""
    f = dict(IDENT0)
    f.update(ident or {})
    L = lengths or {}
    has2 = sec2 is not None
    s0 = ['BUFR', L.get(0, 0), ed]
    if ed == 4:
        s1 = [L.get(1, 0), f['master'], f['centre'], f['subcentre'], f['update'], has2, '0000000', f['category'],
              f['intlsub'], f['localsub'], f['mversion'], f['lversion'], f['year'], f['month'], f['day'],
              f['hour'], f['minute'], f['second']]
    elif ed == 3:
        s1 = [L.get(1, 0), f['master'], f['subcentre'] % 256, f['centre'] % 256, f['update'], has2, '0000000', f['category'],
              f['localsub'], f['mversion'], f['lversion'], f.get('yoc', f['year'] % 100), f['month'], f['day'],
              f['hour'], f['minute'], f['second']]
    elif ed == 2:
        s1 = [L.get(1, 0), f['master'], f['centre'], f['update'], has2, '0000000', f['category'],
              f['localsub'], f['mversion'], f['lversion'], f.get('yoc', f['year'] % 100), f['month'], f['day'],
              f['hour'], f['minute'], f['second']]
    else:
        raise ValueError(ed)
    out = [s0, s1]
    if has2:
        out.append([L.get(2, 0), '00000000', sec2])     # sec2: string of '0'/'1'
    out.append([L.get(3, 0), '00000000', nsub, True, bool(cmp_), '000000', list(ids)])
    out.append([L.get(4, 0), '00000000', [list(s) for s in subsets]])
    out.append(['7777'])
    return out


def to_scaled_int(v, scale):
    """Projection of a decoded numeric value to the scaled integer N = round(v * 10^scale), computed
    exactly; returns (N, ok) where ok says the float is within 2^-40 relative of N / 10^scale."""
    fv = Fraction(v)
    p = Fraction(10) ** scale
    x = fv * p
    n = int(x + Fraction(1, 2)) if x >= 0 else -int(-x + Fraction(1, 2))
    back = Fraction(n) / p
    tol = Fraction(1, 2 ** 40) * max(1, abs(fv))
    return n, abs(fv - back) <= tol


def matches_scaled_int(v, N, scale):
    """Is the decoded float v the value N / 10^scale?  Exact on the scaled integer while a double can
    hold it (|N| < 2^50); beyond that the float must be within 2^-50 relative of the exact quotient."""
    if abs(N) < 2 ** 50:
        n, ok = to_scaled_int(v, scale)
        return ok and n == N
    exact = Fraction(N) / (Fraction(10) ** scale)
    return abs(Fraction(v) - exact) <= abs(exact) * Fraction(1, 2 ** 50)


def wide_to_int(w):
    n = 0
    for limb in reversed(w['m']):
        n = n * 10000 + limb
    return n * w['s']


def bits_to_int(bits):
    n = 0
    for b in bits:
        n = n * 2 + b
    return n


def labels_of(msg, i):
    td = msg.template_data.value
    return [str(d) for d in td.decoded_descriptors_all_subsets[i]]


def values_of(msg, i):
    return list(msg.template_data.value.decoded_values_all_subsets[i])


def links_of(msg, i):
    return sorted((int(k), int(v)) for k, v in msg.template_data.value.bitmap_links_all_subsets[i].items())
