"""Grammar-based generator of descriptor lists inside the well-formed scope WF (DESIGN 2.6).

The hand-written catalogue (vf/catalogue.py) holds one or two templates per construct; this module
derives many more from a small grammar so that constructs meet in combinations nobody wrote down:
an operator bracket around the second of two marker operators, a delayed replication in front of a
back-reference window, a sequence inside an associated-field bracket inside a fixed replication ...

Only SHAPES are produced here.  Element attributes, kinds and the expansion of sequences are read by
the specification itself from the table files; the pools below merely pick descriptors whose Table B
entry is the same in every table version the checks instantiate templates under (so that one list
can be run under several versions) - that is shaping of the input set, not part of any oracle.

WF rules the grammar observes (the regions where FM-94 is silent and pybufrkit makes its own choice
are avoided so that a mismatch can never be a matter of opinion):
  * a 201/202/207 bracket never contains a class-31 numeric (no delayed replication inside it);
  * 204 is not nested, is followed by 031021, and spans only elements, fixed replications, sequences
    and 201/202/207/208 brackets - no 203, 205, 206, no bitmap operators;
  * 203YYY ... 203255 encloses numeric elements only;
  * 221YYY is followed by exactly YYY element descriptors;
  * 206YYY is followed by one local descriptor that no bundled table defines;
  * a bitmap is defined after enough ORDINARY elements for its window (no replication factor inside the window), QA values / marker operators are
    repeated by a delayed replication (the specification derives its factor from the bitmap) or by a
    fixed count not larger than the bitmap;
  * every replication descriptor counts exactly the descriptors of its body as written.
"""
import json
import os
import random

from .common import REPO

TABLES = os.path.join(REPO, 'pybufrkit', 'tables', '0', '0_0')
VERSIONS = (13, 19, 33, 35, 41)
LOCALS = [63250, 63251, 63252, 63255]
FACTORS = [31001, 31001, 31001, 31000, 31002]
CODE_UNITS = ('CODE TABLE', 'FLAG TABLE')
_pool_cache = {}


def pools():
    """Element and sequence pools common to the table versions in VERSIONS (identical width / scale /
    reference / kind), computed from the table files."""
    if _pool_cache:
        return _pool_cache
    tb = {}
    td = {}
    for v in VERSIONS:
        with open(os.path.join(TABLES, str(v), 'TableB.json')) as f:
            tb[v] = json.load(f)
        with open(os.path.join(TABLES, str(v), 'TableD.json')) as f:
            td[v] = json.load(f)

    def kind(unit):
        u = unit.strip().upper()
        if u == 'CCITT IA5':
            return 'str'
        if u in CODE_UNITS:
            return 'code'
        if 'TABLE' in u:
            return None          # "Common Code table C-1" and the like: FM-94 and an implementation may disagree
        return 'num'

    num, code, strs = [], [], []
    for k, e in sorted(tb[33].items()):
        x = int(k[1:3])
        if x in (0, 31, 33) or x >= 48:
            continue
        if not all(k in tb[v] and tb[v][k][2:5] == e[2:5] and kind(tb[v][k][1]) == kind(e[1]) for v in VERSIONS):
            continue
        kd = kind(e[1])
        sc, ref, w = e[2], e[3], e[4]
        if kd == 'num' and 2 <= w <= 32 and abs(ref) < 2 ** 30 and -8 <= sc <= 8:
            num.append(int(k))
        elif kd == 'code' and 2 <= w <= 24:
            code.append(int(k))
        elif kd == 'str' and w % 8 == 0 and 8 <= w <= 256:
            strs.append(int(k))
    good = set(num) | set(code) | set(strs)
    seqs = []
    for k, e in sorted(td[33].items()):
        members = e[1]
        if not (1 <= len(members) <= 8):
            continue
        if not all(k in td[v] and td[v][k][1] == members for v in VERSIONS):
            continue
        if all(m[0] == '0' and int(m) in good for m in members):
            seqs.append(int(k))
    _pool_cache.update({'num': num, 'code': code, 'str': strs, 'seq': seqs, 'width': {int(k): e[4] for k, e in tb[33].items()}})
    return _pool_cache


class Ctx(object):
    def __init__(self, **kw):
        self.width_bracket = False    # inside 201 / 202 / 207
        self.assoc = False            # inside 204
        self.depth = 0                # replication nesting
        self.ndelayed = 0             # delayed replications so far (whole template)
        self.top = True               # at the top level of the template
        self.__dict__.update(kw)

    def sub(self, **kw):
        d = dict(self.__dict__)
        d.update(kw)
        return Ctx(**d)


class Gen(object):
    def __init__(self, rnd, max_delayed=2, max_depth=2, with_bitmap=False):
        self.rnd = rnd
        self.p = pools()
        self.max_delayed = max_delayed
        self.max_depth = max_depth
        self.with_bitmap = with_bitmap
        self.ndelayed = 0
        self.plain = 0           # plain element outputs that certainly precede the current position (top level only)

    # ---- leaves -------------------------------------------------------------------------------
    def num(self):
        return self.rnd.choice(self.p['num'])

    def elem(self, kinds=('num', 'num', 'code', 'str')):
        return self.rnd.choice(self.p[self.rnd.choice(kinds)])

    def elems(self, n, kinds=('num', 'num', 'code', 'str')):
        return [self.elem(kinds) for _ in range(n)]

    # ---- items ---------------------------------------------------------------------------------
    def simple_block(self, ctx, n):
        """elements, sequences, fixed replications, width / string brackets - nothing that reads a count from the data"""
        out = []
        for _ in range(n):
            r = self.rnd.random()
            if r < 0.55:
                out.append(self.elem())
            elif r < 0.65:
                out.append(self.rnd.choice(self.p['seq']))
            elif r < 0.78 and ctx.depth < self.max_depth:
                body = self.simple_block(ctx.sub(depth=ctx.depth + 1, top=False), self.rnd.randint(1, 2))
                out += [100000 + 1000 * len(body) + self.rnd.randint(1, 3)] + body
            elif r < 0.9 and not ctx.width_bracket:
                out += self.bracket(ctx, self.rnd.randint(1, 2))
            else:
                out.append(self.elem())
        return out

    def bracket(self, ctx, n):
        op = self.rnd.choice([201, 201, 202, 207, 208])
        inner = ctx.sub(width_bracket=True, top=False)
        if op == 208:
            body = [self.rnd.choice(self.p['str'])] + self.simple_block(inner, n - 1)
            return [208000 + self.rnd.randint(1, 12)] + body + [208000]
        body = [self.num()] + self.simple_block(inner, n - 1)
        if op == 201:
            return [201000 + 128 + self.rnd.choice([-1, 1, 2, 3, 5, 8])] + body + [201000]
        if op == 202:
            return [202000 + 128 + self.rnd.choice([-2, -1, 1, 2])] + body + [202000]
        return [207000 + self.rnd.randint(1, 3)] + body + [207000]

    def item(self, ctx):
        """One top-level construct; returns (ids, plain outputs it certainly contributes)."""
        r = self.rnd.random()
        if r < 0.30:
            e = self.elems(self.rnd.randint(1, 3))
            return e, len(e)
        if r < 0.38:
            s = self.rnd.choice(self.p['seq'])
            return [s], 1
        if r < 0.50:
            b = self.bracket(ctx, self.rnd.randint(1, 3))
            return b, 1
        if r < 0.60 and ctx.depth < self.max_depth:
            body = self.block(ctx.sub(depth=ctx.depth + 1, top=False), self.rnd.randint(1, 3))
            return [100000 + 1000 * len(body) + self.rnd.randint(1, 3)] + body, 1
        if r < 0.72 and self.ndelayed < self.max_delayed and ctx.depth < self.max_depth and not ctx.width_bracket:
            self.ndelayed += 1
            body = self.block(ctx.sub(depth=ctx.depth + 1, top=False), self.rnd.randint(1, 3))
            return [100000 + 1000 * len(body), self.rnd.choice(FACTORS)] + body, 1      # the factor itself is a plain element
        if r < 0.78:
            # 203: define new reference values, use them, perhaps cancel
            es = list({self.num() for _ in range(self.rnd.randint(1, 2))})
            out = [203000 + self.rnd.randint(3, 16)] + es + [203255] + es
            if self.rnd.random() < 0.4:
                b = [207000 + self.rnd.randint(1, 2), es[0], 207000]
                out += b
            if self.rnd.random() < 0.6:
                out += [203000, es[0]]
            return out, len(es)
        if r < 0.84 and not ctx.assoc:
            inner = ctx.sub(assoc=True, top=False)
            body = self.simple_block(inner, self.rnd.randint(1, 3))
            out = [204000 + self.rnd.randint(1, 12), 31021] + body + [204000]
            if self.rnd.random() < 0.5:
                out.append(self.elem())
            return out, 1
        if r < 0.88:
            return [205000 + self.rnd.randint(1, 6)], 0
        if r < 0.92:
            return [206000 + self.rnd.randint(1, 24), self.rnd.choice(LOCALS)], 0
        if r < 0.96:
            n = self.rnd.randint(1, 3)
            pool = self.p['num'] + [4001, 4002, 5001, 6001, 7001, 8042, 1001, 2001]     # classes 1-9 stay, the others are dropped
            return [221000 + n] + [self.rnd.choice(pool) for _ in range(n)], 0
        return [self.elem()], 1

    def block(self, ctx, n):
        out = []
        for _ in range(n):
            ids, k = self.item(ctx)
            out += ids
            if ctx.top:
                self.plain += k
        return out

    # ---- bitmap sections -------------------------------------------------------------------------
    def markers(self, intro, nbits):
        """The values that follow a bitmap: QA elements or marker operators, with the count read from the bitmap."""
        rnd = self.rnd
        if intro == 222000:
            v = [rnd.choice([33007, 33007, 33002, 33003])]
        else:
            v = [intro + 255]
            if rnd.random() < 0.35:     # an operator in force at the marker, closed in the same body
                y = rnd.choice([201000 + 128 + rnd.choice([1, 2, 4]), 202000 + 128 + rnd.choice([-1, 1]), 207000 + rnd.randint(1, 2), 208000 + rnd.randint(1, 4)])
                v = [y] + v + [y - y % 1000]
        style = rnd.random()
        if style < 0.7:
            return [100000 + 1000 * len(v), 31001] + v
        if style < 0.85 and nbits:
            return [100000 + 1000 * len(v) + rnd.randint(1, nbits)] + v
        # two single values, the first under an operator that is closed before the second (needs >= 2 zero bits)
        if intro != 222000 and nbits and nbits >= 2:
            y = rnd.choice([201000 + 128 + 2, 202000 + 129, 207001])
            return [y, intro + 255, y - y % 1000, intro + 255]
        return [100000 + 1000 * len(v), 31001] + v

    def bitmap_section(self, first, allow_delayed):
        rnd = self.rnd
        intro = rnd.choice([222000, 223000, 224000, 225000, 232000])
        out = [intro]
        reuse = rnd.random() < 0.4
        if reuse:
            out.append(236000)
        if allow_delayed and rnd.random() < 0.25:
            out += [101000, 31001, 31031]
            nbits = 0
        else:
            nbits = rnd.randint(1, 2)
            out += [101000 + nbits, 31031]
        if intro == 224000:
            out.append(8023)
        if intro == 225000:
            out.append(8024)
        out += self.markers(intro, nbits)
        self.last_nbits = nbits
        if reuse and rnd.random() < 0.8:
            again = rnd.choice([222000, 223000, 224000, 225000, 232000])
            out += [again, 237000]
            if again == 224000:
                out.append(8023)
            if again == 225000:
                out.append(8024)
            out += self.markers(again, nbits)
            if rnd.random() < 0.4:
                out.append(237255)
        return out

    # ---- whole templates ----------------------------------------------------------------------------
    def template(self):
        self.ndelayed = 0
        self.plain = 0
        ctx = Ctx()
        out = self.block(ctx, self.rnd.randint(1, 4))
        if self.with_bitmap:
            # the window of the bitmap (at most 3 entries) holds ordinary elements only: a replication factor (class 31) in
            # the window under an operator at the marker is the region where FM-94 is silent (WF)
            e = self.elems(self.rnd.randint(2, 3), ('num', 'num', 'code'))
            out += e
            self.plain = max(self.plain, 0) + len(e)
            out += self.bitmap_section(True, self.ndelayed < self.max_delayed)
            r = self.rnd.random()
            if r < 0.3:
                out.append(235000)
                # again at least as many ordinary elements as the next bitmap can have bits (2): its window must not reach
                # back to the replication factors in front of the cancellation
                e = self.elems(self.rnd.randint(2, 3), ('num', 'num', 'code'))
                out += e
                self.plain = len(e)
                out += self.bitmap_section(False, False)
            elif r < 0.5:
                out += self.elems(1)
            elif r < 0.75 and getattr(self, 'last_nbits', 0):
                # further definitions WITHOUT cancelling the back references: the window stays, so the bitmaps keep their length
                n = self.last_nbits
                for _ in range(self.rnd.randint(1, 2)):
                    intro = self.rnd.choice([223000, 224000, 225000, 232000])
                    out.append(intro)
                    if self.rnd.random() < 0.5:
                        out.append(236000)
                    out += [101000 + n, 31031]
                    if intro == 224000:
                        out.append(8023)
                    if intro == 225000:
                        out.append(8024)
                    out += [101000, 31001, intro + 255]
        elif self.rnd.random() < 0.15:
            # ends inside an operator bracket (whatever a subset leaves behind must not reach the next one)
            out += self.rnd.choice([[201000 + 130, self.num()], [202000 + 129, self.num()], [207001, self.num()], [208002, self.rnd.choice(self.p['str'])]])
        return out


def choices(ids, fmax=2):
    """Number of structures (replication factors x bitmap bits) one subset of this template can take - the number of
    behaviours TLC enumerates per subset; used to keep generated templates inside a behaviour budget."""
    def block(i, stop):
        n = 1
        while i < stop:
            d = ids[i]
            if 100000 <= d < 200000:
                x, y = (d // 1000) % 100, d % 1000
                if y == 0:
                    body_start = i + 2
                    b = block(body_start, min(stop, body_start + x))
                    if x == 1 and body_start < len(ids) and ids[body_start] == 31031:
                        n *= sum(2 ** k for k in range(fmax + 1))          # a bitmap of 0..fmax chosen bits
                    else:
                        n *= sum(b ** k for k in range(fmax + 1))
                    i = body_start + x
                else:
                    b = block(i + 1, min(stop, i + 1 + x))
                    if x == 1 and i + 1 < len(ids) and ids[i + 1] == 31031:
                        n *= 2 ** y
                    else:
                        n *= b ** y
                    i = i + 1 + x
            else:
                i += 1
        return n
    return block(0, len(ids))


def ndelayed(t):
    return sum(1 for d in t if 100000 <= d < 200000 and d % 1000 == 0)


def generate(seed, n_plain=20, n_struct=20, n_bitmap=20, max_len=26, budget=40):
    """{'plain': [...], 'struct': [...], 'bitmap': [...]} - deterministic in `seed`."""
    rnd = random.Random(7919 * seed + 104729)
    out = {'plain': [], 'struct': [], 'bitmap': []}
    seen = set()
    want = {'plain': n_plain, 'struct': n_struct, 'bitmap': n_bitmap}
    guard = 0
    while any(len(out[k]) < want[k] for k in out) and guard < 20000:
        guard += 1
        which = rnd.choice([k for k in out if len(out[k]) < want[k]])
        g = Gen(rnd, max_delayed=0 if which == 'plain' else 2, with_bitmap=(which == 'bitmap'))
        t = g.template()
        if not (2 <= len(t) <= max_len) or tuple(t) in seen:
            continue
        nd = ndelayed(t)
        if choices(t) > budget:
            continue
        if which == 'plain' and nd:
            continue
        if which == 'struct' and not nd:
            continue
        seen.add(tuple(t))
        out[which].append(t)
    return out
