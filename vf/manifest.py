"""Regenerates /verif/MANIFEST.json from the table below (python3 -m vf.manifest)."""
import json
import os
import subprocess

from .common import VERIF

ALL = ['C%02d' % i for i in range(1, 21)]

# id -> (spec modules, technique, level text, level note, design ref)
CHECKS = {
    'C01': (['FM94.tla', 'FM94Gen.tla', 'Tables.tla', 'Column.tla', 'Framing.tla', 'Wide.tla', 'Bits.tla', 'Scope.tla'],
            'TLA+ spec FM94.tla (FM-94 template walker as a state machine, tables read as data) model-checked by TLC over a template '
            'catalogue plus grammar-derived WF templates per seed (vf/gen.py) x factors x bitmap bits x compression x subsets; every TLC behaviour (message octets assembled by Framing.tla) is '
            'replayed into the real Decoder (results and the hook-recorded primitive calls: label, effective width / scale / reference); every program that satisfies Scope.Scoped (flag carried by the behaviour) a second time through one compiling Decoder per worker; version-dependent templates alternately under three table versions through one Decoder; sample corpus parsed by the specification in consume form and compared, with hook-recorded bit cursors and parameters',
            'TLC enumerates every behaviour of the walker specification inside the stated bounds (invariants TypeOK, MissingIffAllOnes, '
            'LinksPointBack, CursorIsSumOfWidths, ...); each behaviour carries a complete message built without pybufrkit and the real '
            'decoder must return exactly the labels, scaled integers, strings and links of the specification; in the other direction the '
            'specification itself parses each sample message and the decoder output and per-field cursors recorded by the hooks must agree.',
            'Trusted: TLC; FM94.tla/Tables.tla/Framing.tla as the reading of FM-94; the table JSON files; the float->scaled-integer projection '
            '(vf/pyb.py). Templates stay inside WF (DESIGN 2.6). Exhaustive only inside the bounds written into the evidence.',
            'DESIGN.md section 3 C01'),
    'C02': (['FM94.tla', 'FM94Gen.tla', 'Column.tla', 'Framing.tla', 'Scope.tla'],
            'TLA+ spec FM94.tla in produce form gives the canonical bits (catalogue + grammar-derived templates); TLC behaviours replayed into the real Encoder: uncompressed output '
            'byte-identical to the message assembled by Framing.tla, compressed output re-read by the specification (consume form, second TLC run); '
            'encoder primitive calls compared through the hooks; scoped programs also through one compiling Encoder per worker; cross-version pass through one Encoder; re-encoded corpus parsed by the specification',
            'Every TLC behaviour supplies values and the independently assembled message; the real encoder must reproduce it byte for byte when '
            'uncompressed; compressed output is validated by the specification reading it back (values reconstruct, all-ones difference iff '
            'missing, width 0 iff all subsets agree, zero padding).',
            'Trusted: TLC; FM94.tla/Column.tla/Framing.tla; values handed over are exact decimals N/10^scale. Compressed output is judged by '
            'legality, not equality with one canonical width.',
            'DESIGN.md section 3 C02'),
    'C03': (['Quant.tla', 'FM94.tla', 'Tables.tla', 'Scope.tla'],
            'TLA+ spec Quant.tla (value<->raw relation over exact decimals, parameters from the table files) model-checked by TLC on all inputs '
            'around the range ends, incl. compressed columns of off-grid inputs judged entry by entry (PointwiseColumn); the range rule for every width 1..64 stated on bit lengths (WideFits: raw values around 2^n and around every octet multiple above the field); every (case, input) replayed into the real Encoder/Decoder and judged by the relation; fixpoint E(render(D(b)))=b '
            'on FM94 behaviours and double round trip on the corpus',
            'TLC checks the relation (half-unit bound, no wrap / clip, refusal when nothing fits, fixpoint on the grid) for every enumerated input and '
            'emits the permitted outcomes; the real encoder/decoder outcome for the same input must be one of them.',
            'Trusted: TLC; Quant.tla; IEEE-754 rounding is not modelled (ties accepted either way, inputs have one digit beyond the scale); '
            'cases limited to 32-bit arithmetic.',
            'DESIGN.md section 3 C03'),
    'C05': (['Column.tla', 'ColumnMC.tla', 'FM94.tla', 'Scope.tla'],
            'TLA+ specs Column.tla/ColumnMC.tla: exhaustive TLC model of one compressed column (reader written separately from writer) over all '
            'columns <=4 subsets, widths <=3/4, every legal difference width; the same columns generated as messages by FM94.tla (all-contents mode) '
            'and replayed into Decoder, Encoder (output re-read by the specification) and the uncompressed path; columns of 52..64-bit fields by value classes (incl. 2^(w-2)+1) for every seed',
            'Exhaustive inside the stated bounds on the specification and on the implementation: every column and every legal width is decoded by '
            'the real decoder, the real encoder output is read by the independent reader, and the uncompressed form of the same subsets decodes to '
            'identical values, labels and links.',
            'Trusted: TLC; Column.tla as the reading of FM-94 94.6.3; the uncompressed side of the transparency comparison goes through pybufrkit itself.',
            'DESIGN.md section 3 C05'),
    'C06': (['FM94.tla', 'FM94Gen.tla', 'Framing.tla'],
            'TLA+ spec FM94.tla with per-subset register reset (action property SubsetsStartFresh; a run with the leaky reset policy must violate it); '
            'TLC emits each multi-subset behaviour together with every subset as its own message and the reversed message; all replayed into the real '
            'Decoder/Encoder and compared position by position (values, labels, links, nested rendering)',
            'TLC explores all combinations of per-subset replication factors and bitmaps for the catalogue (incl. templates that end inside operator '
            'constructs); the implementation must decode each subset jointly exactly as alone and permute with the subsets.',
            'Trusted: TLC; FM94.tla; Framing.tla for the solo messages.',
            'DESIGN.md section 3 C06'),
    'C07': (['FM94.tla', 'FM94Gen.tla'],
            'TLA+ spec FM94.tla bitmap automaton model-checked by TLC over base templates x bitmap lengths 1..4/5 x all 0/1 patterns x operator chains '
            '(action property KthValueKthZero with an independent NthZero scan, invariants on window, associated fields, 225255 parameters, meanings); '
            'every behaviour replayed into the real Decoder/Encoder: bitmap_links and the attribute/meaning relations of the hierarchical view compared; nested 204 (FM94.NestedAssoc), subsets with swapped replication counts in front of the bitmap, links of Scope.Scoped programs also through a compiling decoder',
            'All bitmap patterns up to the bound are enumerated on the specification and on the implementation; links, marker labels and parameters, '
            'and the attribute placement in the real tree must equal the specification.',
            'Trusted: TLC; the bitmap reading in FM94.tla (BackRefIncludesClass31 named); 204 across marker operators outside WF.',
            'DESIGN.md section 3 C07'),
    'C04': (['Framing.tla', 'FramingSM.tla'],
            'TLA+ specs Framing.tla (section layouts from FM-94) and FramingSM.tla (writer with recompute/honour length policies, reader, shrunk-length fault) '
            'model-checked by TLC over editions x section 2 x data bit lengths x declared surpluses x total modes x leading / trailing bytes x version override x truncation; every terminal state '
            'replayed into the real Encoder (both policies) and Decoder, a second time through one shared Decoder with per-call options',
            'TLC checks the length-accounting invariants on every combination inside the bounds; each combination is then executed: the encoder must '
            'emit exactly the specification octets or refuse exactly when the specification refuses, the decoder must report the same lengths, values '
            'and serialized bytes, or a library error exactly when the specification reader fails.',
            'Trusted: TLC; Framing.tla/FramingSM.tla; data sections are runs of one-bit flags. Section 3 takes no surplus beyond its pad octet (two spare octets are a descriptor).',
            'DESIGN.md section 3 C04'),
    'C11': (['Stream.tla', 'Framing.tla', 'Cmd.tla'],
            'TLA+ spec Stream.tla (scanner loop as a state machine, one action per loop exit, concrete octets assembled in the spec) model-checked by TLC over '
            'all streams of <=2/3 pool messages x separators x modes, plus a length sweep (messages of 256/509 consecutive total lengths, every value of the low length octet); every terminal state replayed into generate_bufr_message with hooks on: delivered bytes, '
            'end status and every loop iteration (found-at, next cursor, outcome) compared with the history variable; CLI split / info -c on a sample; Cmd.tla: every info / split invocation over files of several messages through pybufrkit.main()',
            'Exhaustive over the bounded space of streams on the specification (YieldsExactlyMessages, DecoyNeverStartsMessage, ...) and on the implementation, '
            'with per-iteration trace comparison.',
            'Trusted: TLC; Stream.tla; pool of 4-5 small messages; separators without start signature; filter expression ${%edition} == 4.',
            'DESIGN.md section 3 C11'),
    'C12': (['Stream.tla', 'Framing.tla', 'Cmd.tla'],
            'TLA+ spec Stream.tla with fault actions (stop signature, undefined element/sequence descriptor, section length -1/+1 in sections 1/3/4, truncation at every octet) '
            'model-checked by TLC over streams x fault subsets x modes (ContinueSkipsOnlyDamaged, NoContinueDeliversPrefixThenError, NoPrefixDecodes); every terminal state '
            'replayed into the real scanner with exception type and per-iteration trace compared, a second time in series through one Decoder (values-not-enforced and failing scans in between) and in processes that have read in-stream table definitions; Cmd.tla: every `decode` invocation over damaged files through pybufrkit.main() (what is printed before the failure, the error on stderr without traceback)',
            'Fault enumeration driven by the specification: every subset of messages damaged at the modelled fault kinds, every truncation point; the implementation must '
            'deliver exactly the messages the specification delivers and fail with the library error type.',
            'Trusted: TLC; Stream.tla including InfoOK (what metadata-only decoding can see); total length of damaged messages intact.',
            'DESIGN.md section 3 C12'),
    'C17': (['MdQuery.tla', 'Stream.tla', 'Framing.tla', 'Cmd.tla'],
            'TLA+ spec MdQuery.tla (expression parser + first-match/explicit-section lookup over section layouts read as data, cross-checked against Framing.tla) '
            'model-checked by TLC over all parameter names x index forms x prefixes x editions x section 2 x mode; every case replayed into MetadataQuerent on real '
            'full / metadata-only decodes, and in both orders through one querent and one decoder per series of messages; Stream.tla runs in metadata-only mode with data damage; corpus messages with overwritten data sections (metadata-only, also together with values not enforced); metadata-only scans (three filters) over the prepbufr stream with overwritten data sections; Cmd.tla query invocations',
            'Exhaustive over the bounded expression space on specification and implementation; metadata-only decoding shown independent of the data section.',
            'Trusted: TLC; MdQuery.tla; definitions/*.json as data for parameter names.',
            'DESIGN.md section 3 C17'),
    'C09': (['Wiring.tla', 'FM94Tree.tla', 'FM94.tla', 'Cmd.tla'],
            'TLA+ spec Wiring.tla (hierarchical view as a function of the walker output) with invariant TreeConserves model-checked by TLC on every catalogue behaviour; '
            'every behaviour replayed: four real renderings, three converters back to flat JSON, real nested JSON compared node by node with the specification tree, '
            'four encodings compared with the specification octets, CLI encode in subprocesses; templates incl. 221 spans over replications, sequences and operators and nested 204; Cmd.tla: every decode (-j / -a / -m) and encode (formats x --append x --preamble) invocation through pybufrkit.main(); sample files through the consume form + Wiring',
            'TLC establishes conservation (every flat value exactly once, flat order recovered) on the specification for all explored structures; the implementation tree and '
            'all format conversions are compared with the specification for each of them.',
            'Trusted: TLC; Wiring.tla; the character-level layout of the text formats is exercised, not modelled.',
            'DESIGN.md section 3 C09'),
    'C14': (['Tables.tla', 'TablesMC.tla', 'TableSel.tla'],
            'TLA+ specs Tables.tla/TablesMC.tla (Build/Flatten/Expand over the table files as data) model-checked by TLC over all descriptor lists up to length 5/6 '
            '(FlattenBuildIsId, OwnershipCount, FactorIsClass31, SequencesExpand); every well-formed list replayed into template_from_ids; recorded shapes of longer lists, '
            'every Table D/B entry of the selected versions and the version fall-back (TableSel.tla) validated against the library; expansions repeated in a process that has read in-stream table definitions, versions in turn; selection per tables root (a second root with two versions asked first, through get_table_group)',
            'Exhaustive over the bounded list space on both sides; exhaustive over the data of the selected table versions (thorough: all bundled ones).',
            'Trusted: TLC; the reading of FM-94 94.5.4 in Build; table JSON files; references >= 2^31 not compared.',
            'DESIGN.md section 3 C14'),
    'C16': (['Query.tla', 'Wiring.tla', 'FM94Tree.tla', 'Cmd.tla'],
            'TLA+ spec Query.tla (path evaluation with slices, replication envelopes, bare IDs, subset selectors) over Wiring.tla trees; TLC evaluates every path that exists in every '
            'behaviour (depth 4/6) with every slice form (incl. bounds of different sign) at every position; each (message, subset, path) replayed into DataQuerent on interpreted and compiled decodes, compressed and uncompressed, per subset (@[s]) and over the whole message (every subset, reversed selector), on one long-lived querent per worker process (paths meet messages of different subset counts) with malformed paths in between; Cmd.tla query invocations',
            'The specification is the executable meaning of the path language; results are compared value by value (nested structure included) for every generated path.',
            'Trusted: TLC; Query.tla/Wiring.tla; paths are generated from the specification tree.',
            'DESIGN.md section 3 C16'),
    'C18': (['Script.tla', 'Cmd.tla'],
            'TLA+ spec Script.tla: reference semantics on fragment sequences vs character automaton, model-checked by TLC over all scripts of <=4 fragments (thorough: the full pools); every script replayed into '
            'process_embedded_query_expr / ScriptRunner; nesting-level laws validated by TLC on recorded query results of real messages (paths crossed with subset selectors, incl. selections whose first subset contributes nothing); Cmd.tla script invocations (nest level from option, pragma or default)',
            'Exhaustive over the bounded fragment space on both sides; the level laws are checked by TLC on recorded implementation output (trace validation).',
            'Trusted: TLC; Script.tla; escape-free literals.',
            'DESIGN.md section 3 C18'),
    'C08': (['Compiler.tla', 'FM94.tla', 'FM94Gen.tla', 'Scope.tla'],
            'TLA+ specs FM94.tla (required behaviour) and Compiler.tla (Scoped: the single-pass condition under which the property applies, evaluated by TLC per program; '
            'compiled-template cache model explored over all request histories); every FM94 behaviour of every scoped program replayed through the real compiled Decoder/Encoder '
            '(cache sizes 0,1,2,8), through compile -> JSON -> load -> execute, and request histories replayed on one coder object over a message pool sharing templates across table versions',
            'Structure-complete enumeration (factors, bitmap bits, compression, subsets) of every catalogued program and sampled Table D sequences on the specification; the compiled '
            'implementation must reproduce the specification for each; non-vacuity of the scope condition is measured.',
            'Trusted: TLC; FM94.tla; Compiler.Scoped as the reading of "operators opened and closed within one replication scope". ',
            'DESIGN.md section 3 C08'),
    'C10': (['Subset.tla', 'FM94.tla'],
            'TLA+ spec Subset.tla (which subsets a request designates; refusal) model-checked by TLC over all requests of <=3/4 indices over -1..n, and for messages of 11 (17) subsets over requests drawn from indices around 0, 8, the middle and n; each request applied with '
            'BufrMessage.subset to real decodes of FM94-generated messages (compressed and not), re-encoded (also with declared lengths honoured: the result is a valid message; a second extraction from the same message before the first is encoded) and decoded, compared with the specification subsets; CLI and corpus',
            'Exhaustive over the bounded request space; data content from FM94 behaviours.',
            'Trusted: TLC; Subset.tla; FM94.tla; all-ones = missing identification as the property states.',
            'DESIGN.md section 3 C10'),
    'C13': (['Caches.tla', 'FM94.tla'],
            'TLA+ spec Caches.tla (table-group cache with bounded most-recent-first eviction, compiled-template cache, message objects; operations as actions) model-checked by TLC; '
            'every transition of the state graph emitted with its shortest history (transition tour) and executed against the real code in worker subprocesses with the cache limits '
            'set as in the model; each step compared with the same operation in a fresh process; lenient decoding, an identification with missing tables FAILED decodes (three ways to fail) and the metadata-only decode are operations AND state of the model; a template outside Compiler.Scoped with its reference per configuration; one history at the real limit of 50 over 59 table-group keys',
            'All (state, operation) pairs of the cache model up to the history bound are exercised on the implementation; results must be history-independent.',
            'Trusted: TLC; Caches.tla; fresh-process results of the implementation as reference (tied to FM94.tla by C01/C02).',
            'DESIGN.md section 3 C13'),
    'C20': (['TableDef.tla', 'Tables.tla', 'FM94.tla'],
            'TLA+ spec TableDef.tla (NCEP definition messages written and read back by the specification; entries in force along a stream) model-checked by TLC; data messages generated by '
            'FM94.tla under the extended tables (ExtraB/ExtraD) for two master table versions alternating in the stream; definitions also BETWEEN data messages (the same template before and after a redefinition); each stream scanned by generate_bufr_message in a fresh subprocess - plain, through a filter that drops the definition messages, and with a compiling decoder - and compared',
            'Streams of 1..3 definition messages over a pool with overrides, code/character/negative-scale elements, sequences with replication and the NCEP replication-only form; '
            'all FM94 structure of the data templates.',
            'Trusted: TLC; TableDef.tla; Table B version 13 for the layout elements; NcepReplicationOnlySequence named deviation.',
            'DESIGN.md section 3 C20'),
    'C15': (['PathParser.tla', 'Trace_PathParser.tla'],
            'TLA+ spec PathParser.tla (documented grammar as recogniser + 9-state character automaton) model-checked by TLC over every '
            'string up to length 5/6 over a 12-symbol alphabet; TLC-emitted verdicts replayed into NodePathParser; every string also twice through one shared parser object; recorded parser '
            'outcomes for long expressions and mutations validated by TLC (Trace_PathParser.tla)',
            'TLC checks the automaton against the grammar on every string of the bounded space, and every such string is parsed by the '
            'real parser with verdict, exception type, slices, components and the print/parse round trip compared; beyond the bound, '
            'recorded outcomes of the real parser are trace-validated against the same specification.',
            'Trusted: TLC; the reading of docs/internals.rst written down in PathParser.tla (ID = [0-9A-Z]+, first separator not ".", '
            'integers optionally signed); the slice projection of the driver.',
            'DESIGN.md section 3 C15'),
    'C19': (['BitStream.tla', 'Bits.tla'],
            'TLA+ spec BitStream.tla model-checked by TLC (exhaustive widths 1..64 x value classes x offsets 0..7 + -simulate); '
            'every TLC behaviour replayed step by step into the real bit writer/reader; refused writes and refused overwrites in place (2^n, -1, -2^(n-1)) are actions of the specification',
            'Exhaustive model checking of the writer/reader state machine inside the stated bounds, and every emitted '
            'behaviour (15k quick) is executed against bitops.py with position, octets and read results compared to the '
            'specification state after each action; long mixed sequences by simulation.',
            'Trusted: TLC, the pattern<->integer projection of the driver (int(bits,2)), bitstring as used by the repo. '
            'Exhaustive only for one field (or write+overwrite) between lead-in and sentinel; longer sequences are sampled.',
            'DESIGN.md section 3 C19'),
}

PENDING = 'not built yet in this session; the specification and conformance harness for it are still to be written (see DESIGN.md section 8)'


def main():
    commits = subprocess.run(['git', '-C', '/repo', 'log', '--format=%h %s'], stdout=subprocess.PIPE).stdout.decode().splitlines()
    hook_commits = [c.split()[0] for c in commits if c.split(' ', 1)[1].startswith('verif-hook')]
    m = {
        'version': 1,
        'setup_cmd': './check --setup',
        'hooks': {
            'guard': 'YWANGD_PYBUFRKIT_VERIF',
            'enable': 'environment variable YWANGD_PYBUFRKIT_VERIF=1 (set by ./check before pybufrkit is imported from /repo; nothing to build)',
            'baseline_off_cmd': 'cd /repo && env -u YWANGD_PYBUFRKIT_VERIF /venv/bin/python -m pytest -ra -q -p no:cacheprovider --timeout=900 --continue-on-collection-errors',
            'source_commits': hook_commits,
            'add_only': True,
        },
        'engines': [
            {'name': 'tlc', 'path': '/opt/veriftools/tla/tla2tools.jar', 'serves_properties': sorted(CHECKS),
             'kind_free_text': 'TLC 1.8 explicit-state model checker (BFS, -simulate) on the TLA+ specifications under /verif/spec'},
            {'name': 'conformance', 'path': '/verif/vf', 'serves_properties': sorted(CHECKS),
             'kind_free_text': 'Python drivers replaying TLC behaviours into pybufrkit and recorders whose traces TLC validates'},
        ],
        'checks': [],
        'not_applicable': [],
        'notes': 'All checks are ./check <id> --tier quick|thorough; exit 2 means the machinery failed (never a verdict). '
                 'KNOWN_FINDINGS.json lists recorded and fixed defects.',
    }
    for pid in ALL:
        if pid in CHECKS:
            specs, tech, text, note, ref = CHECKS[pid]
            m['checks'].append({
                'property_id': pid,
                'quick_cmd': './check %s --tier quick' % pid,
                'thorough_cmd': './check %s --tier thorough' % pid,
                'evidence_file': '/verif/evidence/%s.json' % pid,
                'replay_cmd_template': './check %s --replay {path}' % pid,
                'engine': 'tlc',
                'level_claimed': {'category': 'model_checking', 'text': text, 'design_ref': ref},
                'level_note': note,
                'technique': tech,
            })
        else:
            m['not_applicable'].append({'property_id': pid, 'reason': PENDING})
    with open(os.path.join(VERIF, 'MANIFEST.json'), 'w') as f:
        json.dump(m, f, indent=1)
    print('MANIFEST.json: %d checks, %d not applicable' % (len(m['checks']), len(m['not_applicable'])))


if __name__ == '__main__':
    main()
