"""Regenerates /verif/MANIFEST.json from the table below (python3 -m vf.manifest)."""
import json
import os
import subprocess

from .common import VERIF

ALL = ['C%02d' % i for i in range(1, 21)]

# id -> (spec modules, technique, level text, level note, design ref)
CHECKS = {
    'C15': (['PathParser.tla', 'Trace_PathParser.tla'],
            'TLA+ spec PathParser.tla (documented grammar as recogniser + 9-state character automaton) model-checked by TLC over every '
            'string up to length 5/6 over a 12-symbol alphabet; TLC-emitted verdicts replayed into NodePathParser; recorded parser '
            'outcomes for long expressions and mutations validated by TLC (Trace_PathParser.tla)',
            'TLC checks the automaton against the grammar on every string of the bounded space, and every such string is parsed by the '
            'real parser with verdict, exception type, slices, components and the print/parse round trip compared; beyond the bound, '
            'recorded outcomes of the real parser are trace-validated against the same specification.',
            'Trusted: TLC; the reading of docs/internals.rst written down in PathParser.tla (ID = [0-9A-Z]+, first separator not ".", '
            'integers optionally signed); the slice projection of the driver.',
            'DESIGN.md section 3 C15'),
    'C19': (['BitStream.tla', 'Bits.tla'],
            'TLA+ spec BitStream.tla model-checked by TLC (exhaustive widths 1..64 x value classes x offsets 0..7 + -simulate); '
            'every TLC behaviour replayed step by step into the real bit writer/reader',
            'Exhaustive model checking of the writer/reader state machine inside the stated bounds, and every emitted '
            'behaviour (15k quick) is executed against bitops.py with position, octets and read results compared to the '
            'specification state after each action; long mixed sequences by simulation.',
            'Trusted: TLC, the pattern<->integer projection of the driver (int(bits,2)), bitstring as used by the repo. '
            'Exhaustive only for one field (or write+overwrite) between lead-in and sentinel; longer sequences are sampled.',
            'DESIGN.md section 3 C19'),
}

PENDING = 'not built yet in this session; the specification and conformance harness for it are still to be written (see DESIGN.md section 8)'


def main():
    commits = subprocess.run(['git', '-C', '/repo', 'log', '--format=%h %s'], stdout=subprocess.PIPE).stdout.decode().splitlines()
    hook_commits = [c.split()[0] for c in commits if c.split(' ', 1)[1].startswith('verif-hook')]
    m = {
        'version': 1,
        'setup_cmd': './check --setup',
        'hooks': {
            'guard': 'YWANGD_PYBUFRKIT_VERIF',
            'enable': 'environment variable YWANGD_PYBUFRKIT_VERIF=1 (set by ./check before pybufrkit is imported from /repo; nothing to build)',
            'baseline_off_cmd': 'cd /repo && env -u YWANGD_PYBUFRKIT_VERIF /venv/bin/python -m pytest -ra -q -p no:cacheprovider --timeout=900 --continue-on-collection-errors',
            'source_commits': hook_commits,
            'add_only': True,
        },
        'engines': [
            {'name': 'tlc', 'path': '/opt/veriftools/tla/tla2tools.jar', 'serves_properties': sorted(CHECKS),
             'kind_free_text': 'TLC 1.8 explicit-state model checker (BFS, -simulate) on the TLA+ specifications under /verif/spec'},
            {'name': 'conformance', 'path': '/verif/vf', 'serves_properties': sorted(CHECKS),
             'kind_free_text': 'Python drivers replaying TLC behaviours into pybufrkit and recorders whose traces TLC validates'},
        ],
        'checks': [],
        'not_applicable': [],
        'notes': 'All checks are ./check <id> --tier quick|thorough; exit 2 means the machinery failed (never a verdict). '
                 'KNOWN_FINDINGS.json lists recorded and fixed defects.',
    }
    for pid in ALL:
        if pid in CHECKS:
            specs, tech, text, note, ref = CHECKS[pid]
            m['checks'].append({
                'property_id': pid,
                'quick_cmd': './check %s --tier quick' % pid,
                'thorough_cmd': './check %s --tier thorough' % pid,
                'evidence_file': '/verif/evidence/%s.json' % pid,
                'replay_cmd_template': './check %s --replay {path}' % pid,
                'engine': 'tlc',
                'level_claimed': {'category': 'model_checking', 'text': text, 'design_ref': ref},
                'level_note': note,
                'technique': tech,
            })
        else:
            m['not_applicable'].append({'property_id': pid, 'reason': PENDING})
    with open(os.path.join(VERIF, 'MANIFEST.json'), 'w') as f:
        json.dump(m, f, indent=1)
    print('MANIFEST.json: %d checks, %d not applicable' % (len(m['checks']), len(m['not_applicable'])))


if __name__ == '__main__':
    main()
