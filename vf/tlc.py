"""Run TLC and parse what it says.

One TLC invocation = one `TlcResult`.  The spec modules under /verif/spec are
linked into a scratch directory together with the generated MC_* module and cfg
so that nothing is ever written next to the hand-written specifications.
"""
import json
import os
import re
import subprocess
import time

from .common import SPEC, MachineryError

JAR = '/opt/veriftools/tla/tla2tools.jar'
DEPS = '/opt/veriftools/tla/CommunityModules-deps.jar'

RE_STATES = re.compile(r'(\d+) states generated, (\d+) distinct states found, (\d+) states left on queue')
RE_DEPTH = re.compile(r'The depth of the complete state graph search is (\d+)')
RE_COV = re.compile(r'^<(\w+) line (\d+), col (\d+) to line (\d+), col (\d+) of module (\w+)>: (\d+):(\d+)')
RE_INV = re.compile(r'Error: Invariant (\S+) is violated')
RE_APROP = re.compile(r'Error: Action property (\S+) is violated')
RE_SIM = re.compile(r'The number of states generated: (\d+)')


class TlcResult(object):
    def __init__(self):
        self.module = ''
        self.cfg_text_summary = ''
        self.cmdline = ''
        self.mode = 'bfs'
        self.rc = None
        self.out = ''
        self.wall = 0.0
        self.generated = 0
        self.distinct = 0
        self.depth = 0
        self.coverage = {}      # action -> (distinct, generated)
        self.violated = None    # name of violated invariant / property
        self.error = None       # other error text
        self.emitted = []       # decoded JSON values printed by the spec
        self.outpath = None
        self.n_emitted = 0
        self.postcondition_failed = False
        self.deadlock = False

    def iter_emitted(self):
        """Values printed with PrintT(ToJson(x)), streamed from the output file."""
        with open(self.outpath, 'r', encoding='utf-8', errors='replace') as f:
            for line in f:
                if line.startswith('"') and len(line) > 3 and line[1] in '{[':
                    line = line.strip()
                    try:
                        yield json.loads(json.loads(line))
                    except ValueError:
                        for piece in re.findall(r'"(?:[^"\\\\]|\\\\.)*"', line):
                            try:
                                yield json.loads(json.loads(piece))
                            except ValueError:
                                raise MachineryError('cannot parse emitted line: %r' % line[:200])

    def coverage_summary(self):
        return {k: v[1] for k, v in sorted(self.coverage.items())}

    def zero_actions(self):
        return sorted(k for k, v in self.coverage.items() if v[1] == 0)

    def ok(self):
        return self.rc == 0 and not self.violated and not self.error


def link_specs(workdir):
    for fn in os.listdir(SPEC):
        if fn.endswith('.tla'):
            dst = os.path.join(workdir, fn)
            if not os.path.exists(dst):
                os.symlink(os.path.join(SPEC, fn), dst)


def parse_emitted(out):
    """Values printed with PrintT(ToJson(x)) appear as TLA+ string literals."""
    vals = []
    for line in out.splitlines():
        line = line.strip()
        if len(line) >= 4 and line[0] == '"' and line[-1] == '"' and line[1] in '{[':
            try:
                vals.append(json.loads(json.loads(line)))
            except ValueError:
                # interleaved output of several workers: split on the literal boundary
                for piece in re.findall(r'"(?:[^"\\]|\\.)*"', line):
                    try:
                        vals.append(json.loads(json.loads(piece)))
                    except ValueError:
                        raise MachineryError('cannot parse emitted line: %r' % line[:200])
    return vals


def run(workdir, module, cfg_text, module_text=None, workers=16, simulate=None, depth=None,
        seed=None, coverage=True, timeout=1800, env=None, deadlock=False, heap='8g',
        dfs_queue=False, extra=(), lazy_emitted=False):
    """Run TLC on `module` (a generated MC module if module_text is given)."""
    link_specs(workdir)
    if module_text is not None:
        with open(os.path.join(workdir, module + '.tla'), 'w') as f:
            f.write(module_text)
    cfg = os.path.join(workdir, module + '.cfg')
    with open(cfg, 'w') as f:
        f.write(cfg_text)
    meta = os.path.join(workdir, 'meta-' + module)
    cmd = ['java', '-XX:+UseParallelGC', '-Xmx' + heap, '-Xss64m']
    if dfs_queue:
        cmd.append('-Dtlc2.tool.queue.IStateQueue=StateDeque')
    cmd += ['-cp', JAR + ':' + DEPS, 'tlc2.TLC', '-workers', str(workers), '-metadir', meta,
            '-noGenerateSpecTE', '-config', module + '.cfg']
    if not deadlock:
        cmd.append('-deadlock')       # -deadlock DISABLES deadlock checking
    if coverage and not simulate:
        cmd += ['-coverage', '1']
    if simulate:
        cmd += ['-simulate', simulate]
        if depth:
            cmd += ['-depth', str(depth)]
    if seed is not None:
        cmd += ['-seed', str(seed)]
    cmd += list(extra)
    cmd.append(module + '.tla')
    e = dict(os.environ)
    e.pop('JAVA_TOOL_OPTIONS', None)
    if env:
        e.update(env)
    res = TlcResult()
    res.module = module
    res.mode = 'simulate' if simulate else 'bfs'
    res.cmdline = ' '.join(cmd[cmd.index('tlc2.TLC'):])
    res.cfg_text_summary = ' | '.join(l.strip() for l in cfg_text.splitlines() if l.strip())[:400]
    t0 = time.time()
    outpath = os.path.join(workdir, module + '.out')
    try:
        with open(outpath, 'wb') as outf:
            p = subprocess.run(cmd, cwd=workdir, env=e, stdout=outf, stderr=subprocess.STDOUT, timeout=timeout)
    except subprocess.TimeoutExpired as ex:
        subprocess.call(['pkill', '-f', 'metadir ' + meta])
        raise MachineryError('TLC timed out after %ss on %s' % (timeout, module))
    res.wall = time.time() - t0
    res.rc = p.returncode
    res.outpath = outpath
    # emitted values are TLA+ string literals on their own line; everything else is TLC's own output
    plain = []
    nemit = 0
    with open(outpath, 'r', encoding='utf-8', errors='replace') as f:
        for line in f:
            if line.startswith('"') and len(line) > 3 and line[1] in '{[':
                nemit += 1
            else:
                plain.append(line)
    res.out = ''.join(plain)
    res.n_emitted = nemit
    for m in RE_STATES.finditer(res.out):
        res.generated, res.distinct = int(m.group(1)), int(m.group(2))
    m = RE_DEPTH.search(res.out)
    if m:
        res.depth = int(m.group(1))
    if simulate:
        ms = RE_SIM.findall(res.out)
        if ms:
            res.generated = res.distinct = int(ms[-1])
    for line in res.out.splitlines():
        m = RE_COV.match(line)
        if m and m.group(2) == m.group(4) or m and True:
            name = m.group(1)
            # top-level action lines only (TLC indents the sub-expressions)
            d, g = int(m.group(7)), int(m.group(8))
            if name in res.coverage:
                d0, g0 = res.coverage[name]
                res.coverage[name] = (d0 + d, g0 + g)
            else:
                res.coverage[name] = (d, g)
    m = RE_INV.search(res.out) or RE_APROP.search(res.out)
    if m:
        res.violated = m.group(1)
    if 'Deadlock reached' in res.out:
        res.deadlock = True
        res.violated = res.violated or 'Deadlock'
    if 'Temporal properties were violated' in res.out:
        res.violated = res.violated or 'Temporal'
    if re.search(r'Postcondition|POSTCONDITION', res.out) and 'violated' in res.out:
        res.postcondition_failed = True
    if res.rc not in (0, 10, 11, 12, 13) or 'Error: ' in res.out and not res.violated and not res.postcondition_failed:
        errs = [l for l in res.out.splitlines() if l.startswith('Error:') or 'Exception' in l
                or 'error' in l.lower() and 'TLC' in l]
        # PrintT lines may contain the word Error; keep only TLC's own
        if res.rc != 0 or errs:
            res.error = '\n'.join(errs[:10]) or ('TLC exit code %s' % res.rc)
    res.emitted = list(res.iter_emitted()) if (lazy_emitted is False and nemit) else []
    return res


def require_ok(res, what=''):
    """TLC must have finished without error; a violated invariant is returned to the caller."""
    if res.error and not res.violated and not res.postcondition_failed:
        tail = '\n'.join(res.out.splitlines()[-40:])
        raise MachineryError('TLC failed %s (%s): %s\n%s' % (what, res.module, res.error, tail))
    return res


def error_trace(res):
    """The textual counter-example (states) of a violated invariant."""
    out = res.out
    i = out.find('Error: The behavior up to this point is')
    if i < 0:
        i = out.find('Error:')
    return out[i:i + 6000]


def sany(path):
    p = subprocess.run(['java', '-cp', JAR + ':' + DEPS, 'tla2sany.SANY', os.path.basename(path)],
                       cwd=os.path.dirname(path), stdout=subprocess.PIPE, stderr=subprocess.STDOUT)
    out = p.stdout.decode('utf-8', 'replace')
    ok = p.returncode == 0 and 'Semantic errors' not in out and 'Parse Error' not in out \
        and 'Fatal errors' not in out and '*** Errors' not in out
    return ok, out


def tla_str(s):
    return '"' + s.replace('\\', '\\\\').replace('"', '\\"') + '"'


def tla_val(v):
    """Python value -> TLA+ literal (ints, strings, bools, lists->sequences, dicts->records)."""
    if isinstance(v, bool):
        return 'TRUE' if v else 'FALSE'
    if isinstance(v, int):
        if v < 0:
            return '(-%d)' % (-v)
        return str(v)
    if isinstance(v, str):
        return tla_str(v)
    if isinstance(v, (list, tuple)):
        return '<<' + ', '.join(tla_val(x) for x in v) + '>>'
    if isinstance(v, (set, frozenset)):
        return '{' + ', '.join(tla_val(x) for x in sorted(v)) + '}'
    if isinstance(v, dict):
        if not v:
            raise ValueError('empty record')
        return '[' + ', '.join('%s |-> %s' % (k, tla_val(x)) for k, x in v.items()) + ']'
    raise ValueError('cannot convert %r' % (v,))


def mc_module(name, extends, consts, extra=''):
    """Generated model module: every constant of the extended spec is given by a definition
    (cfg files cannot express sequences or records)."""
    lines = ['---- MODULE %s ----' % name, 'EXTENDS ' + ', '.join(extends)]
    for k, v in consts.items():
        lines.append('MC_%s == %s' % (k, v if isinstance(v, str) else tla_val(v)))
    lines.append(extra)
    lines.append('====')
    return '\n'.join(lines) + '\n'


def mc_cfg(consts, init='Init', next_='Next', spec=None, invariants=(), properties=(), constraints=(),
           action_constraints=(), postcondition=None, view=None, symmetry=None, deadlock=None):
    lines = []
    if consts:
        lines.append('CONSTANTS')
        for k in consts:
            lines.append('  %s <- MC_%s' % (k, k))
    if spec:
        lines.append('SPECIFICATION ' + spec)
    else:
        lines.append('INIT ' + init)
        lines.append('NEXT ' + next_)
    for i in invariants:
        lines.append('INVARIANT ' + i)
    for p in properties:
        lines.append('PROPERTY ' + p)
    for c in constraints:
        lines.append('CONSTRAINT ' + c)
    for c in action_constraints:
        lines.append('ACTION_CONSTRAINT ' + c)
    if postcondition:
        lines.append('POSTCONDITION ' + postcondition)
    if view:
        lines.append('VIEW ' + view)
    if deadlock is not None:
        lines.append('CHECK_DEADLOCK ' + ('TRUE' if deadlock else 'FALSE'))
    return '\n'.join(lines) + '\n'
