"""The FM94 engine: run the template-walker specification (FM94.tla / FM94Gen.tla) in produce
form over a batch of templates and replay every emitted behaviour into the real Decoder/Encoder.

A behaviour (one JSON line printed by TLC) carries: template ids, edition, compression flag,
subset count, the complete message octets (assembled by Framing.tla, not by pybufrkit) and, per
subset, the list of output entries [lab, t, w, sc, link, v[{miss, raw, N}]].
"""
import os

from . import tlc, pyb
from .common import REPO, MachineryError

TABLES = os.path.join(REPO, 'pybufrkit', 'tables')


def table_dirs(mversion=33, local=None):
    """Directories the specification reads Table B/D from (WMO first, then the local table)."""
    dirs = [os.path.join(TABLES, '0', '0_0', str(mversion))]
    if local:
        centre, sub, ver = local
        dirs.append(os.path.join(TABLES, '0', '%d_%d' % (centre, sub), str(ver)))
    return dirs


def base_consts(dirs=None, mversion=33, local=None, **over):
    c = {'Cases': '<<>>', 'Editions': '{4}', 'Compressions': '{FALSE}', 'SubsetCounts': '{1}', 'Fmax': '0', 'Seeds': '{0}',
         'Slack': '0', 'ValueMode': '"classes"', 'Mode': '"produce"', 'ResetPolicy': '"fm94"', 'NulStrings': 'FALSE', 'NestedAssoc': 'FALSE',
         'TableDirs': tlc.tla_val(list(dirs or table_dirs(mversion, local))), 'ExtraB': '<<>>', 'ExtraD': '<<>>',
         'MasterVersion': str(mversion), 'LocalVersion': str(local[2] if local else 0),
         'Centre': str(local[0] if local else 0), 'SubCentre': str(local[1] if local else 0), 'IdentVariant': '0'}
    c.update(over)
    return c


def tla_set(xs):
    return '{' + ', '.join(tlc.tla_val(x) for x in xs) + '}'


def gen_run(wd, name, templates, editions=(4,), compressions=(False, True), subset_counts=(1, 2),
            fmax=2, seeds=(0,), slack=0, mversion=33, local=None, reset='fm94', invariants=None, value_mode='classes', emit='Emit', properties=(),
            workers=16, timeout=3000, coverage=False, identv=0, nested_assoc=False):
    consts = base_consts(
        Cases='<<' + ', '.join('[ids |-> %s]' % tlc.tla_val(list(t)) for t in templates) + '>>',
        Editions=tla_set(editions), Compressions=tla_set(compressions), SubsetCounts=tla_set(subset_counts),
        Fmax=str(fmax), Seeds=tla_set(seeds), Slack=str(slack), Mode='"produce"', ResetPolicy=tlc.tla_str(reset),
        ValueMode=tlc.tla_str(value_mode), dirs=table_dirs(mversion, local), mversion=mversion, local=local, IdentVariant=str(identv),
        NestedAssoc='TRUE' if nested_assoc else 'FALSE')
    text = tlc.mc_module(name, ['FM94Gen'], consts)
    invs = list(invariants if invariants is not None else
                ['TypeOK', 'MissingIffAllOnes', 'LinksPointBack', 'CursorIsSumOfWidths',
                 'ProducedBitsMatchCursor', 'FramesNested']) + ([emit] if emit else [])
    cfg = tlc.mc_cfg(consts, invariants=invs, properties=properties)
    res = tlc.run(wd, name, cfg, text, workers=workers, lazy_emitted=True, coverage=coverage, timeout=timeout)
    tlc.require_ok(res, name)
    return res


# ---------------------------------------------------------------------------------------------
# projection of specification entries to Python values

def spec_value(e, j):
    """The value the implementation must hold for column j of entry e, as a comparable tuple."""
    v = e['v'][j]
    t = e['t']
    if t == 'const':
        return ('int', 0)
    if t == 'str':
        return ('str', bytes(pyb.bits_to_int(v['raw'][8 * k: 8 * k + 8]) for k in range(len(v['raw']) // 8)))
    if v['miss']:
        return ('miss',)
    if t == 'code':
        return ('int', pyb.bits_to_int(v['raw']))
    if t == 'ref':
        return ('int', pyb.wide_to_int(v['N']))
    return ('num', pyb.wide_to_int(v['N']), e['sc'])


def impl_matches(val, sv):
    """Does the decoded Python value `val` equal the specification's value `sv`?"""
    k = sv[0]
    if k == 'miss':
        return val is None
    if val is None:
        return False
    if k == 'str':
        return isinstance(val, bytes) and val == sv[1]
    if k == 'int':
        return isinstance(val, int) and not isinstance(val, bool) and val == sv[1]
    if isinstance(val, bool) or not isinstance(val, (int, float)):
        return False
    return pyb.matches_scaled_int(val, sv[1], sv[2])


def user_value(e, j):
    """The value a user hands to the encoder for this entry (what a decoder would have produced)."""
    sv = spec_value(e, j)
    if sv[0] == 'miss':
        return None
    if sv[0] == 'str':
        s = sv[1]
        if s and all(c == 255 for c in s):
            return None
        # every other character field is handed over the way a user writes it - without the trailing blanks (an
        # all-blank field as the empty string): the encoder pads to the field width (C02).  The choice goes with the
        # position, so that the subsets of one compressed column are spelt alike (equal contents, equal spelling)
        if (e.get('p', 0) // 8) % 2 == 0:
            s = s.rstrip(b' ')
        return s.decode('latin-1')
    if sv[0] == 'int':
        return sv[1]
    n, sc = sv[1], sv[2]
    if sc == 0:
        return n
    if sc > 0:
        return n / (10 ** sc) if n % (10 ** sc) else float(n // (10 ** sc))
    return float(n * 10 ** (-sc))


def subsets_of(beh):
    """Per real subset: list of (lab, spec_value, link, entry) - compressed behaviours carry one
    entry list with nsub columns."""
    out = []
    if beh['cmp']:
        ents = beh['subsets'][0]
        for j in range(beh['nsub']):
            out.append([(e['lab'], spec_value(e, j), e['link'], e) for e in ents])
    else:
        for ents in beh['subsets']:
            out.append([(e['lab'], spec_value(e, 0), e['link'], e) for e in ents])
    return out


def flat_values(beh):
    vals = []
    if beh['cmp']:
        ents = beh['subsets'][0]
        for j in range(beh['nsub']):
            vals.append([user_value(e, j) for e in ents])
    else:
        for ents in beh['subsets']:
            vals.append([user_value(e, 0) for e in ents])
    return vals


def feature_of(e):
    return '%s,w=%d' % (e['t'], e['w'])


def compare_decoded(beh, msg, what='decode'):
    """Compare a decoded BufrMessage with the behaviour.  Returns None or (signature, detail)."""
    subs = subsets_of(beh)
    td = msg.template_data.value
    if len(td.decoded_values_all_subsets) != len(subs):
        return ((what, 'subsets', 'count', ''), 'decoder has %d subsets, specification %d' % (
            len(td.decoded_values_all_subsets), len(subs)))
    for i, ents in enumerate(subs):
        labs = pyb.labels_of(msg, i)
        vals = pyb.values_of(msg, i)
        for k, (lab, sv, link, e) in enumerate(ents):
            if k >= len(labs) or k >= len(vals):
                return ((what, 'length', 'short', feature_of(e)),
                        'subset %d: implementation has %d values, specification %d; first missing %s' % (
                            i, len(vals), len(ents), lab))
            if labs[k] != lab:
                return ((what, 'label', lab[0] if not lab[0].isdigit() else 'plain', feature_of(e)),
                        'subset %d index %d: label %s, specification %s' % (i, k, labs[k], lab))
            ok = impl_matches(vals[k], sv)
            if not ok and what == 'corpus-encode' and sv[0] == 'str' and isinstance(vals[k], bytes):
                # the value decoded from a foreign message whose compressed column carries the string in fewer octets than
                # the element has; the encoder pads it with blanks to the field width (C02 says so)
                ok = len(vals[k]) <= len(sv[1]) and vals[k].ljust(len(sv[1])) == sv[1]
            if not ok:
                return ((what, 'value', sv[0], feature_of(e)),
                        'subset %d index %d (%s): value %r, specification %r (width %d scale %d)' % (
                            i, k, lab, vals[k], sv, e['w'], e['sc']))
        if len(vals) != len(ents) or len(labs) != len(ents):
            return ((what, 'length', 'long', ''),
                    'subset %d: implementation has %d values, specification %d' % (i, len(vals), len(ents)))
        want = sorted((k, link - 1) for k, (lab, sv, link, e) in enumerate(ents) if link > 0)
        got = pyb.links_of(msg, i)
        if got != want:
            return ((what, 'links', 'differ', ''),
                    'subset %d: bitmap links %r, specification %r' % (i, got, want))
    return None


IDENT_MAX = dict(centre=65535, subcentre=65535, update=255, category=255, intlsub=255, localsub=255, year=2000, yoc=100,
                 month=12, day=31, hour=23, minute=59, second=59)


def ident_of(beh):
    if beh.get('identv') == 1:
        return dict(IDENT_MAX, mversion=beh.get('mversion', 33), lversion=0)
    return {'mversion': beh.get('mversion', 33), 'lversion': beh.get('lversion', 0),
            'centre': beh.get('centre', 0), 'subcentre': beh.get('subcentre', 0)}


def replay_decode(beh, decoder=None):
    """spec -> code, decoder: the specification's octets go through the real Decoder."""
    from pybufrkit.decoder import Decoder
    from pybufrkit import _verif
    dec = decoder or Decoder()
    data = bytes(beh['msg'])
    del _verif.EVENTS[:]
    try:
        msg = dec.process(data)
    except Exception as e:
        if beh['err']:
            return None, None
        return (('decode', 'exception', type(e).__name__, ''), 'decoder raised %r on a well-formed message' % (e,)), None
    if beh['err']:
        return None, msg
    bad = compare_decoded(beh, msg)
    if bad is None and _verif.enabled():
        # code -> spec on every generated behaviour as well: the primitive events the hooks recorded (label, effective
        # width / scale / reference each primitive was called with) against the entries of the specification
        ev = [e for e in _verif.EVENTS if e.get('coder') == 'Decoder' and e.get('a', '').startswith('process_')]
        bad = compare_events(beh, ev, cursors=False)
    del _verif.EVENTS[:]
    if bad is None and msg.serialized_bytes != data:
        bad = (('decode', 'serialized_bytes', 'differ', ''), 'serialized_bytes differ from the input message')
    return bad, msg


def cmp_narrow(e):
    """a compressed string column carried in fewer octets than the element has (a foreign encoder's choice)"""
    return e.get('d', -1) > 0 and 8 * e['d'] < e['w']


def compare_events(parsed, events, cursors=True):
    """Per-field bit cursors recorded by the hooks against the specification's cursor."""
    ents = [e for s in parsed['subsets'] for e in s]
    if len(events) != len(ents):
        return (('trace', 'events', 'count', ''), '%d primitive events recorded, specification has %d fields' % (len(events), len(ents)))
    base = parsed['data0']
    for k, (ev, e) in enumerate(zip(events, ents)):
        if ev['lab'] != e['lab']:
            return (('trace', 'event', 'label', ''), 'event %d is %s, specification field %s' % (k, ev['lab'], e['lab']))
        if cursors and ev['p1'] - base != e['p']:
            return (('trace', 'event', 'cursor', feature_of(e)),
                    'event %d (%s): cursor after the field %d, specification %d' % (k, e['lab'], ev['p1'] - base, e['p']))
        # the effective parameters the primitive was called with (what operators 201 / 202 / 203 / 207 / 208 left in force)
        a = ev.get('args') or []
        if ev['a'] == 'process_numeric' and e['t'] == 'num' and len(a) == 3:
            want = (e['w'], 10.0 ** e['sc'], pyb.wide_to_int(e['ref']))
            if a[0] != want[0] or abs(a[1] - want[1]) > 1e-9 * want[1] or a[2] != want[2]:
                return (('trace', 'event', 'parameters', feature_of(e)),
                        'event %d (%s): called with width / 10^scale / reference %r, specification %r' % (k, e['lab'], a, want))
        elif ev['a'] == 'process_codeflag' and e['t'] == 'code' and a and a[0] != e['w']:
            return (('trace', 'event', 'parameters', feature_of(e)), 'event %d (%s): width %r, specification %d' % (k, e['lab'], a[0], e['w']))
        elif ev['a'] == 'process_string' and e['t'] == 'str' and a and 8 * a[0] != e['w'] and not cmp_narrow(e):
            return (('trace', 'event', 'parameters', feature_of(e)), 'event %d (%s): %r octets, specification %d bits' % (k, e['lab'], a[0], e['w']))
    return None



def replay_encode(beh, encoder=None, canonical=True):
    """spec -> code, encoder: the specification's values go through the real Encoder and the bytes are
    compared with the specification's message (canonical=True: byte identity)."""
    from pybufrkit.encoder import Encoder
    from pybufrkit import _verif
    enc = encoder or Encoder()
    j = pyb.flat_json(beh['ed'], beh['ids'], beh['nsub'], beh['cmp'], flat_values(beh), ident=ident_of(beh))
    del _verif.EVENTS[:]
    try:
        msg = enc.process(j)
    except Exception as e:
        del _verif.EVENTS[:]
        return (('encode', 'exception', type(e).__name__, ''), 'encoder raised %r for conforming values' % (e,)), None
    ev = [e for e in _verif.EVENTS if e.get('coder') == 'Encoder' and e.get('a', '').startswith('process_')]
    del _verif.EVENTS[:]
    if _verif.enabled():
        # the primitive calls of the encoder (label, effective width / scale / reference) against the specification entries
        bad = compare_events(beh, ev, cursors=False)
        if bad:
            return (('encode',) + tuple(bad[0]), bad[1]), msg
    data = msg.serialized_bytes
    if canonical and data != bytes(beh['msg']):
        want = bytes(beh['msg'])
        first = next((k for k in range(min(len(data), len(want))) if data[k] != want[k]), min(len(data), len(want)))
        return (('encode', 'bytes', 'differ', 'cmp' if beh['cmp'] else 'unc'),
                'encoder output differs from the specification at octet %d (lengths %d / %d)' % (first, len(data), len(want))), msg
    return None, msg


# ---------------------------------------------------------------------------------------------
# consume form: the specification itself parses octets produced by the real encoder

def consume_run(wd, name, messages, mversion=33, local=None, workers=16, timeout=3000, dirs=None, chunk=12000):
    """messages: list of bytes.  Returns {tid (1-based): behaviour}.  Long lists are parsed in several TLC runs (the
    messages are one literal constant of the model); the first run's result object carries the summed statistics."""
    if len(messages) > chunk:
        first, out = None, {}
        for k in range(0, len(messages), chunk):
            res, part = consume_run(wd, '%s_p%d' % (name, k // chunk), messages[k:k + chunk], mversion=mversion, local=local, workers=workers,
                                    timeout=timeout, dirs=dirs, chunk=chunk)
            for tid, b in part.items():
                out[tid + k] = b
            if first is None:
                first = res
            else:
                first.generated += res.generated
                first.distinct += res.distinct
                first.wall += res.wall
        return first, out
    consts = base_consts(Cases='<<' + ', '.join('[msg |-> %s]' % tlc.tla_val(list(m)) for m in messages) + '>>',
                         Mode='"consume"', dirs=dirs or table_dirs(mversion, local), mversion=mversion, local=local)
    text = tlc.mc_module(name, ['FM94Gen'], consts)
    cfg = tlc.mc_cfg(consts, invariants=['TypeOK', 'MissingIffAllOnes', 'LinksPointBack', 'Emit'])
    res = tlc.run(wd, name, cfg, text, workers=workers, lazy_emitted=True, coverage=False, timeout=timeout)
    tlc.require_ok(res, name)
    out = {}
    for b in res.iter_emitted():
        out[b['tid']] = b
    if len(out) != len(messages):
        raise MachineryError('consume run returned %d parses for %d messages' % (len(out), len(messages)))
    return res, out


def compare_parsed(beh, parsed, what='encode'):
    """The specification's own parse of the encoder's octets must give back the behaviour's data."""
    if parsed['err']:
        return ((what, 'reparse', parsed['err'], 'cmp' if beh['cmp'] else 'unc'),
                'the specification cannot parse the encoder output: %s' % parsed['err'])
    a, b = subsets_of(beh), subsets_of(parsed)
    if len(a) != len(b):
        return ((what, 'reparse', 'subsets', ''), 'subset count %d, expected %d' % (len(b), len(a)))
    for i in range(len(a)):
        if len(a[i]) != len(b[i]):
            return ((what, 'reparse', 'length', ''), 'subset %d has %d entries, expected %d' % (i, len(b[i]), len(a[i])))
        for k in range(len(a[i])):
            la, va, ka, ea = a[i][k]
            lb, vb, kb, eb = b[i][k]
            if la != lb or ka != kb:
                return ((what, 'reparse', 'structure', feature_of(ea)), 'subset %d index %d: %s/%d, expected %s/%d' % (i, k, lb, kb, la, ka))
            if va != vb:
                return ((what, 'reparse', 'value', feature_of(ea)),
                        'subset %d index %d (%s): encoder wrote %r, given %r' % (i, k, la, vb, va))
    if beh['cmp']:
        for k, e in enumerate(parsed['subsets'][0]):
            if e['t'] == 'const':
                continue
            alleq = all(v == e['v'][0] for v in e['v'])
            if (e['d'] == 0) != alleq:
                return ((what, 'width0', 'iff-all-agree', feature_of(e)),
                        'index %d (%s): difference width %d although the subsets %s' % (
                            k, e['lab'], e['d'], 'all agree' if alleq else 'differ'))
    if parsed['nbits_used'] is not None and parsed.get('padding_nonzero'):
        return ((what, 'padding', 'nonzero', ''), 'padding bits after the data are not zero')
    return None


# ---------------------------------------------------------------------------------------------
# batches: what TLC chooses per template group

def batch_plan(tier, seed):
    """List of (label, group, kwargs for gen_run).  The per-group constants keep the number of
    behaviours per template bounded (DESIGN 7, behaviour budget)."""
    rot = seed % 5
    plan = []
    if tier == 'quick':
        plan.append(('v33 plain', 'plain', dict(mversion=33, subset_counts=(1, 2), seeds=(rot, (rot + 2) % 5), slack=1)))
        plan.append(('v33 struct', 'struct', dict(mversion=33, subset_counts=(1, 2), seeds=(rot,), fmax=2, slack=0)))
        plan.append(('v33 bitmap', 'bitmap', dict(mversion=33, subset_counts=(1, 2), seeds=((rot + 1) % 5,), fmax=2, slack=0)))
        plan.append(('v35 plain ed3', 'plain', dict(mversion=35, editions=(3,), subset_counts=(2,), seeds=((rot + 3) % 5,), slack=0, identv=1)))
        plan.append(('v13 struct ed2', 'struct', dict(mversion=13, editions=(2,), subset_counts=(1,), seeds=((rot + 4) % 5,), fmax=1, slack=0, identv=1)))
        # grammar-derived templates of this seed (vf/gen.py), each group under another table version / edition
        mv = [(33, 4), (35, 3), (13, 2), (41, 4), (19, 3)]
        for k, g in enumerate(('rnd_plain', 'rnd_struct', 'rnd_bitmap')):
            v, ed = mv[(seed + k) % 5]
            plan.append(('v%d %s' % (v, g.replace('_', ' ')), g, dict(mversion=v, editions=(ed,), subset_counts=(1, 2), seeds=((rot + k) % 5,), fmax=2, slack=0)))
        plan.append(('v33 Table D sequences', 'tabled_33', dict(mversion=33, editions=(4,), subset_counts=(1, 2), seeds=((rot + 3) % 5,), fmax=1, slack=0)))
    else:
        for mv in (19, 25, 33, 41):
            plan.append(('v%d Table D sequences' % mv, 'tabled_%d' % mv, dict(mversion=mv, editions=(4,) if mv != 25 else (3,), subset_counts=(1, 2), seeds=(rot, (rot + 3) % 5), fmax=1, slack=0)))
        for mv in (33, 35, 13, 19, 41):
            eds = {33: (4,), 35: (3,), 13: (2,), 19: (4,), 41: (3,)}[mv]
            plan.append(('v%d plain' % mv, 'plain', dict(mversion=mv, editions=eds, subset_counts=(1, 2, 3), seeds=(0, 1, 2, 3, 4), slack=1)))
            plan.append(('v%d struct' % mv, 'struct', dict(mversion=mv, editions=eds, subset_counts=(1, 2), seeds=(rot, (rot + 2) % 5), fmax=2, slack=1)))
            if mv == 33:
                plan.append(('v33 struct fmax3', 'struct', dict(mversion=mv, editions=eds, subset_counts=(1,), seeds=((rot + 1) % 5,), fmax=3, slack=0)))
            plan.append(('v%d bitmap' % mv, 'bitmap', dict(mversion=mv, editions=eds, subset_counts=(1, 2), seeds=(rot, (rot + 3) % 5), fmax=2, slack=1)))
            for k, g in enumerate(('rnd_plain', 'rnd_struct', 'rnd_bitmap')):
                plan.append(('v%d %s' % (mv, g.replace('_', ' ')), g, dict(mversion=mv, editions=eds, subset_counts=(1, 2, 3) if k == 0 else (1, 2),
                                                                           seeds=((rot + k) % 5, (rot + k + 2) % 5), fmax=2, slack=0)))
    return plan


def _init_worker():
    from .common import ensure_repo_import
    ensure_repo_import()


def _compiling(kind, cache_max=3):
    """One compiling Decoder / Encoder per worker process, shared by all the behaviours the worker replays: the programs
    of a run meet in its small cache (hits for the same template with other factors and bitmaps, evictions in between)."""
    key = (kind, os.getpid())
    if key not in _COMPILING:
        from pybufrkit.decoder import Decoder
        from pybufrkit.encoder import Encoder
        _COMPILING[key] = (Decoder if kind == 'dec' else Encoder)(compiled_template_cache_max=cache_max)
    return _COMPILING[key]


_COMPILING = {}


def _work(args):
    mode, behs = args
    out = []
    for beh in behs:
        r = {'bad_dec': None, 'bad_enc': None, 'enc_bytes': None, 'bad_tr': None}
        # a program that satisfies Compiler.Scoped (the flag travels with the behaviour) must give the same result with template
        # compilation on: "the decoder" / "the encoder" of C01 / C02 includes that configuration
        compiled = beh.get('scoped') and 'nocompile' not in mode
        if 'decode' in mode:
            r['bad_dec'], _ = replay_decode(beh)
            if r['bad_dec'] is None and compiled:
                bad, _ = replay_decode(beh, decoder=_compiling('dec'))
                if bad:
                    r['bad_dec'] = (('compiled',) + tuple(bad[0]), 'with template compilation (one decoder for the run): ' + bad[1])
        if 'encode' in mode:
            bad, msg = replay_encode(beh, canonical=not beh['cmp'])
            r['bad_enc'] = bad
            if bad is None and beh['cmp']:
                r['enc_bytes'] = bytes(msg.serialized_bytes)
            if bad is None and compiled:
                bad2, msg2 = replay_encode(beh, encoder=_compiling('enc'), canonical=not beh['cmp'])
                if bad2 is None and beh['cmp'] and bytes(msg2.serialized_bytes) != bytes(msg.serialized_bytes):
                    bad2 = (('encode', 'bytes', 'differ', 'cmp'), 'compressed output differs from the output without compilation')
                if bad2:
                    r['bad_enc'] = (('compiled',) + tuple(bad2[0]), 'with template compilation (one encoder for the run): ' + bad2[1])
        if 'transparent' in mode and beh['cmp'] and r['bad_dec'] is None:
            r['bad_tr'] = replay_transparent(beh)
        out.append(r)
    return out


def replay_transparent(beh):
    """The same subsets stored uncompressed: the real encoder writes them, the real decoder reads them,
    and values, labels and links must equal what the compressed form decodes to (both through pybufrkit;
    the compressed side is tied to the specification by replay_decode)."""
    from pybufrkit.decoder import Decoder
    from pybufrkit.encoder import Encoder
    vals = flat_values(beh)
    try:
        ju = pyb.flat_json(beh['ed'], beh['ids'], beh['nsub'], False, vals, ident=ident_of(beh))
        mu = Decoder().process(Encoder().process(ju).serialized_bytes)
        mc = Decoder().process(bytes(beh['msg']))
    except Exception as e:
        return (('transparent', 'exception', type(e).__name__, ''), 'uncompressed encode/decode of the same subsets raised %r' % (e,))
    for i in range(beh['nsub']):
        if pyb.labels_of(mu, i) != pyb.labels_of(mc, i):
            return (('transparent', 'labels', 'differ', ''), 'subset %d: labels differ between the compressed and the uncompressed form' % i)
        a, b = pyb.values_of(mu, i), pyb.values_of(mc, i)
        if len(a) != len(b) or any(type(x) != type(y) or x != y for x, y in zip(a, b)):
            k = next((k for k in range(min(len(a), len(b))) if type(a[k]) != type(b[k]) or a[k] != b[k]), -1)
            return (('transparent', 'values', 'differ', ''),
                    'subset %d index %d: uncompressed %r, compressed %r' % (i, k, a[k] if k >= 0 else len(a), b[k] if k >= 0 else len(b)))
        if pyb.links_of(mu, i) != pyb.links_of(mc, i):
            return (('transparent', 'links', 'differ', ''), 'subset %d: links differ between the two forms' % i)
    return None


def replay_all(behaviours, mode, procs=14, chunk=40):
    """Replay behaviours (list) in a process pool; returns list of result dicts in order."""
    import multiprocessing as mp
    chunks = [behaviours[i:i + chunk] for i in range(0, len(behaviours), chunk)]
    if not chunks:
        return []
    ctx = mp.get_context('fork')
    with ctx.Pool(min(procs, len(chunks)), initializer=_init_worker) as pool:
        res = pool.map(_work, [(mode, c) for c in chunks])
    return [r for c in res for r in c]


def brief(beh):
    return {'ids': beh['ids'], 'ed': beh['ed'], 'cmp': beh['cmp'], 'nsub': beh['nsub'], 'seed': beh['seed'],
            'mversion': beh.get('mversion'), 'nbits': beh['nbits'],
            'labels_subset0': [e['lab'] for e in beh['subsets'][0]][:40]}


def structure_key(beh):
    """Identifies the structure (not the values) of a behaviour - used to count distinct cases."""
    return (tuple(beh['ids']), beh['ed'], beh['cmp'], beh['nsub'], beh.get('mversion'),
            tuple(tuple(e['lab'] for e in s) for s in beh['subsets']))


# ---------------------------------------------------------------------------------------------
# one coder object, several table versions: whatever a Decoder / Encoder (or the process) keeps from one message
# must not reach the next

XV_TEMPLATES = [[14001, 12001], [316020],
                [12001, 14001, 223000, 101002, 31031, 101000, 31001, 223255],
                [14001, 224000, 236000, 101001, 31031, 8023, 224255, 12001],
                [102002, 14001, 2001], [201130, 14001, 201000, 14001]]
XV_VERSIONS = (13, 33, 19)      # 014001 is 12 bits in version 13 and 17 from 19 on; 316020 starts with 001023 / 001033


def _shared_pass(args):
    mode, behs = args
    from pybufrkit.decoder import Decoder
    from pybufrkit.encoder import Encoder
    dec, enc = Decoder(), Encoder()
    out = []
    for beh in behs:
        bad = None
        if 'decode' in mode:
            bad, _ = replay_decode(beh, decoder=dec)
        if bad is None and 'encode' in mode and not beh['cmp']:
            bad, _ = replay_encode(beh, encoder=enc, canonical=True)
        if bad is None and 'roundtrip' in mode:
            # C03 through shared objects: what the one Encoder wrote, read by the one Decoder, is the data handed over
            bad, msg = replay_encode(beh, encoder=enc, canonical=not beh['cmp'])
            if bad is None:
                try:
                    bad = compare_decoded(beh, dec.process(bytes(msg.serialized_bytes)), what='round-trip')
                except Exception as e:
                    bad = (('round-trip', 'exception', type(e).__name__, ''), 'decoding what the encoder wrote raised %r' % (e,))
        out.append(bad)
    return out


def cross_version_pass(run, wd, mode, seed=0):
    """The same templates under several master table versions (elements and sequences whose entries differ between
    them), generated by the specification per version and then replayed ALTERNATELY through one Decoder / Encoder
    object in one process."""
    import multiprocessing as mp
    per = []
    for mv in XV_VERSIONS:
        res = gen_run(wd, 'MC_xv_%d' % mv, XV_TEMPLATES, mversion=mv, subset_counts=(1, 2), seeds=((seed + mv) % 5,), fmax=1, slack=0)
        run.add_tlc(res, 'FM94 produce, version-dependent templates under master table version %d' % mv)
        per.append([b for b in res.iter_emitted() if not b['err']])
    n = min(len(p) for p in per)
    mixed = [p[k] for k in range(n) for p in per]           # v13, v33, v19, v13, ...
    with mp.get_context('fork').Pool(1, initializer=_init_worker) as pool:
        out = pool.map(_shared_pass, [(mode, mixed)])[0]
    for beh, bad in zip(mixed, out):
        run.traces += 1
        if bad:
            run.violation(('shared-coder',) + tuple(bad[0]), 'one coder object, alternating table versions: ' + bad[1],
                          {'kind': 'behaviour', 'behaviour': beh, 'note': 'manifests only after a message of another table version in the same process'})
    run.notes['cross_version_behaviours_through_one_coder'] = len(mixed)
