"""Binding self-tests: the conformance step must reject corrupted behaviours / traces."""


def t_c19():
    from .props import c19
    beh = {"ops": [{"n": 3, "v": [1, 0, 1], "tag": "lead", "pos": 3, "at": -1, "op": "write_bin"},
                   {"n": 13, "v": [0] * 12 + [1], "tag": "f", "pos": 16, "at": -1, "op": "write_uint"},
                   {"n": 13, "v": [1] * 13, "tag": "f", "pos": 16, "at": 3, "op": "set_uint"}],
           "bits": [1, 0, 1] + [1] * 13,
           "reads": [{"typ": "bin", "n": 3, "v": [1, 0, 1], "pos": 3, "missing": False},
                     {"typ": "uint", "n": 13, "v": [1] * 13, "pos": 16, "missing": True}]}
    assert c19.replay_behaviour(beh) is None, 'good behaviour rejected'
    import copy
    b2 = copy.deepcopy(beh)
    b2['bits'][5] = 0
    assert c19.replay_behaviour(b2) is not None, 'corrupted stream accepted'
    b3 = copy.deepcopy(beh)
    b3['reads'][1]['missing'] = False
    assert c19.replay_behaviour(b3) is not None, 'corrupted read result accepted'
    b4 = copy.deepcopy(beh)
    del b4['ops'][2]
    assert c19.replay_behaviour(b4) is not None, 'dropped operation accepted'


def t_c15():
    from .props import c15
    good = {'ok': True, 'subset': c15.proj_slice(0),
            'comps': [{'sep': '/', 'id': list('001001'), 'slice': c15.proj_slice(slice(None, 2, None))}]}
    s = '@[0]/001001[:2]'
    assert c15.classify(s, good, c15.observe(s)) is None, 'good parse rejected'
    bad = {'ok': True, 'subset': c15.proj_slice(1), 'comps': good['comps']}
    assert c15.classify(s, bad, c15.observe(s)) is not None, 'corrupted subset accepted'
    assert c15.classify('/001001[', {'ok': True, 'subset': good['subset'], 'comps': []}, c15.observe('/001001[')) is not None
    assert c15.classify('/001001', {'ok': False}, c15.observe('/001001')) is not None, 'verdict flip accepted'


TESTS = [t_c19, t_c15]


def main():
    bad = 0
    for t in TESTS:
        try:
            t()
            print('selftest %-12s ok' % t.__name__)
        except Exception as e:
            print('selftest %-12s FAILED: %r' % (t.__name__, e))
            bad += 1
    return bad
