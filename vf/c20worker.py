"""Scans one stream (definition messages followed by data messages) in a fresh process and prints what the
data messages decode to.  python -m vf.c20worker <in.json> <out.json>"""
import json
import sys


def main():
    job = json.load(open(sys.argv[1]))
    from pybufrkit.decoder import Decoder, generate_bufr_message
    from pybufrkit.utils import JSON_DUMPS_KWARGS
    out = []
    for stream in job['streams']:
        res = {'messages': [], 'error': ''}
        try:
            dec = Decoder(compiled_template_cache_max=job['cache']) if job.get('cache') is not None else Decoder()
            kw = {'filter_expr': job['filter']} if job.get('filter') else {}
            for m in generate_bufr_message(dec, bytes(stream), **kw):
                if m.data_category.value == 11:
                    continue
                td = m.template_data.value
                n = m.n_subsets.value
                res['messages'].append({
                    'values': json.loads(json.dumps(td.decoded_values_all_subsets, **JSON_DUMPS_KWARGS)),
                    'labels': [[str(d) for d in td.decoded_descriptors_all_subsets[i]] for i in range(n)],
                    'elems': [[d.id, getattr(d, 'unit', ''), getattr(d, 'scale', 0), getattr(d, 'refval', 0), getattr(d, 'nbits', 0)]
                              for d in td.decoded_descriptors_all_subsets[0]],
                })
        except Exception as e:
            res['error'] = '%s: %s' % (type(e).__name__, e)
        out.append(res)
        # every stream of a job shares the process on purpose only when the caller says so
        if not job.get('share_process'):
            break
    json.dump(out, open(sys.argv[2], 'w'))


if __name__ == '__main__':
    main()
