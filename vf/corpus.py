"""The sample corpus (tests/data, tests/benchmark_data) as cases for the consume form of FM94:
the specification parses the octets of each message itself (Framing.ParseHeader, Tables.Build,
the walker) and the result is compared with what the real Decoder / Encoder did.

Message boundaries are found here from the declared total length (not with pybufrkit); the table
directories are taken from the decoded message's table_group_key (the version fall-back rule is
pybufrkit's own design and is the subject of C14)."""
import glob
import os

from . import fm94, pyb
from .common import REPO, MachineryError, seed


def split_messages(data):
    out = []
    i = 0
    while True:
        i = data.find(b'BUFR', i)
        if i < 0 or i + 8 > len(data):
            break
        n = int.from_bytes(data[i + 4:i + 7], 'big')
        if n >= 8 and i + n <= len(data) and data[i + n - 4:i + n] == b'7777':
            out.append(data[i:i + n])
            i += n
        else:
            i += 4
    return out


def files():
    fs = sorted(glob.glob(os.path.join(REPO, 'tests', 'data', '*.bufr')) +
                glob.glob(os.path.join(REPO, 'tests', 'benchmark_data', '*.bufr')))
    return [f for f in fs if os.path.basename(f) not in ('prepbufr.bufr', 'multi_invalid_messages.bufr')]


def collect(tier):
    """[(name, octets)] : the first message(s) of every sample file within the size bound of the tier."""
    limit = 1600 if tier == 'quick' else 9000
    per_file = 1 if tier == 'quick' else 2
    cases = []
    skipped = 0
    for f in files():
        with open(f, 'rb') as fh:
            msgs = split_messages(fh.read())
        for k, m in enumerate(msgs[:per_file]):
            if len(m) <= limit and m[4 + 3] in (2, 3, 4):
                cases.append(('%s#%d' % (os.path.basename(f), k), m))
            else:
                skipped += 1
    return cases, skipped


def key_dirs(key):
    root = key.tables_root_dir
    dirs = [os.path.join(root, *key.wmo_tables_sn)]
    if key.local_tables_sn:
        dirs.append(os.path.join(root, *key.local_tables_sn))
    return tuple(dirs)


def consume_grouped(wd, tag, items):
    """items: list of (octets, dirs).  Runs one consume-form TLC run per table selection; returns
    (list of TlcResult, list of parsed behaviours aligned with items)."""
    groups = {}
    for i, (m, dirs) in enumerate(items):
        groups.setdefault(dirs, []).append(i)
    parsed = [None] * len(items)
    results = []
    for gi, (dirs, idxs) in enumerate(sorted(groups.items())):
        res, out = consume_dirs(wd, '%s_%d' % (tag, gi), [items[i][0] for i in idxs], dirs)
        results.append(res)
        for k, i in enumerate(idxs):
            parsed[i] = out[k + 1]
    return results, parsed


def consume_dirs(wd, name, messages, dirs):
    res, out = fm94.consume_run(wd, name, messages, dirs=list(dirs))
    return res, out


def decode_with_events(octets):
    from pybufrkit import _verif
    from pybufrkit.decoder import Decoder
    del _verif.EVENTS[:]
    msg = Decoder().process(octets)
    ev = [e for e in _verif.EVENTS if e.get('coder') == 'Decoder' and e.get('a', '').startswith('process_')]
    del _verif.EVENTS[:]
    return msg, ev


cmp_narrow = fm94.cmp_narrow
compare_cursors = fm94.compare_events


def validate(run, wd, what):
    """what = 'decode': D(b) against the specification's parse of b (values, labels, links, cursors).
       what = 'encode': b1 = E(D(b)); the specification's parse of b1 must equal D(b)."""
    from pybufrkit.decoder import Decoder
    from pybufrkit.encoder import Encoder
    from pybufrkit.renderer import FlatJsonRenderer
    cases, skipped = collect(run.tier)
    items = []
    meta = []
    refused = 0
    for name, m in cases:
        try:
            msg, ev = decode_with_events(m)
        except Exception as e:
            run.violation(('corpus', 'decode', 'exception', type(e).__name__), '%s: decoder raised %r' % (name, e),
                          {'kind': 'corpus', 'what': what, 'name': name})
            continue
        dirs = key_dirs(msg.table_group_key)
        if what == 'decode':
            items.append((m, dirs))
            meta.append((name, msg, ev, m))
        else:
            try:
                m1 = Encoder().process(FlatJsonRenderer().render(msg)).serialized_bytes
            except Exception:
                refused += 1          # e.g. table fall-back not available to the encoder: "refused", see DESIGN C03
                continue
            items.append((m1, dirs))
            meta.append((name, msg, ev, m))
    results, parsed = consume_grouped(wd, 'MC_corpus_' + what, items)
    for r in results:
        run.add_tlc(r, 'FM94 consume form over sample messages (%s)' % what, exhaustive=False)
    nfields = 0
    for (name, msg, ev, m), p in zip(meta, parsed):
        run.traces += 1
        nfields += sum(len(s) for s in p['subsets'])
        if p['err'] == 'OutsideWF':
            # the message enters the region where FM-94 is silent (FM94.OutsideWF): reported, not judged
            run.notes['corpus_%s_outside_wf' % what] = run.notes.get('corpus_%s_outside_wf' % what, 0) + 1
            continue
        if p['err']:
            run.violation(('corpus', what, 'spec-cannot-parse', p['err']), '%s: the specification stops with %s' % (name, p['err']),
                          {'kind': 'corpus', 'what': what, 'name': name})
            continue
        bad = fm94.compare_decoded(p, msg, what='corpus-' + what)
        if bad is None and what == 'decode':
            bad = compare_cursors(p, ev)
        if bad is None and p.get('padding_nonzero') and what == 'encode':
            bad = (('corpus-encode', 'padding', 'nonzero', ''), 'padding bits after the data are not zero')
        if bad:
            run.violation(('corpus',) + tuple(bad[0]), '%s: %s' % (name, bad[1]), {'kind': 'corpus', 'what': what, 'name': name})
        else:
            run.nontriv(('corpus', name))
    run.notes['corpus_%s_messages' % what] = len(meta)
    run.notes['corpus_%s_fields' % what] = nfields
    run.notes['corpus_skipped_by_size_bound'] = skipped
    if what == 'encode':
        run.notes['corpus_encode_refused'] = refused
    if meta:
        run.sample({'corpus_message': meta[0][0], 'fields': sum(len(s) for s in parsed[0]['subsets'])}, limit=8)


def replay(run, d, path):
    print('corpus replay: re-run the check; case %s' % d.get('name'))
    return 0
