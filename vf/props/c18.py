"""C18 - script preprocessing substitutes exactly the embedded queries.

spec : Script.tla - (i) reference semantics on fragment sequences, (ii) character automaton; nesting levels
       as laws on bracket-token sequences
MC   : every script of up to 4 fragments (thorough: the full pools) drawn from pools of code text, quoted literals,
       comments, embedded expressions (padded duplicates, quotes and # inside) and a lone $:
       AutomatonAgreesWithReference, NamesFollowExpressions, OnlyEmbedsChange
GEN  : every script is preprocessed by the real process_embedded_query_expr: output text and the
       expression -> name map must equal the specification's; ScriptRunner.metadata_only must equal the
       specification's MetadataOnly for scripts that compile
TRACE: query results of real messages at nesting levels 4, 2, 1, 0 (by argument and by pragma) are recorded,
       tokenised and validated by TLC against LevelsConsistent; variables bound by ScriptRunner.run
       (names, message, file name, pragma precedence) are compared with direct queries
"""
import json

from .. import tlc, fm94, pyb
from ..common import workdir, rm_workdir, seed, MachineryError

POOLS = {
    'CodePool': ['x = ', '\n', 'f(a)[0] ', '{1: 2}', ' % 3'],
    'QuotePool': ['a', '${q}', '#', 'it"s', "o'c $", 'tab\\t'],          # a backslash that does not stand before the terminator
    'CommentPool': [' note', ' \'${c}\' "', '', ' C:\\data\\'],       # a comment that ends with a backslash still ends at the newline
    'ExprPool': ['/001001', ' /001001 ', '%length', "a'#b", '', '/a > b.c[1:2]'],
}


def tla_strs(xs):
    return '{' + ', '.join(tlc.tla_str(x).replace('\n', '\\n') for x in xs) + '}'


def consts(what, maxfrags=4, recorded=None):
    c = {k: tla_strs(v) for k, v in POOLS.items()}
    c.update({'MaxFrags': str(maxfrags), 'What': tlc.tla_str(what), 'Recorded': tlc.tla_val(recorded) if recorded else '<<>>'})
    return c


def check_script(rec):
    from pybufrkit.script import process_embedded_query_expr, ScriptRunner
    s = rec['script']
    try:
        out, subs = process_embedded_query_expr(s)
    except Exception as e:
        return (('preprocess', 'exception', type(e).__name__, ''), 'script %r raised %r' % (s, e))
    want = {e: 'PBK_%d' % i for i, e in enumerate(rec['exprs'])}
    if out != rec['out']:
        kinds = set(rec['kinds'])
        feat = 'comment' if 'comment' in kinds else 'quote' if kinds & {'sq', 'dq'} else 'plain'
        return (('preprocess', 'output', 'differs', feat), 'script %r -> %r, specification %r' % (s, out, rec['out']))
    if dict(subs) != want:
        return (('preprocess', 'names', 'differ', ''), 'script %r: names %r, specification %r' % (s, dict(subs), want))
    try:
        sr = ScriptRunner(s)
    except SyntaxError:
        return None
    except Exception as e:
        return None
    if sr.metadata_only != rec['mdonly']:
        return (('runner', 'metadata_only', 'differs', ''), 'script %r: metadata_only %r, specification %r' % (s, sr.metadata_only, rec['mdonly']))
    return None


def _work(recs):
    return [check_script(r) for r in recs]


def tokens(v, index):
    """Nested list -> bracket tokens; leaves are numbered by first appearance (None = -1)."""
    out = []

    def walk(x):
        if isinstance(x, list):
            out.append(-2)
            for y in x:
                walk(y)
            out.append(-3)
        elif x is None:
            out.append(-1)
        else:
            k = repr(x)
            if k not in index:
                index[k] = len(index)
            out.append(index[k])
    walk(v)
    return out


def level_records(run):
    """Query results of generated and sample messages at the four nesting levels."""
    from pybufrkit.decoder import Decoder
    from pybufrkit.encoder import Encoder
    from pybufrkit.script import ScriptRunner
    msgs = []
    ids = [1001, 104000, 31001, 12001, 102002, 2001, 11003, 1015]
    subs = [[5, 2, 250.1, 1, 10.0, 2, 11.0, 251.2, 3, 12.0, 0, 13.0, 'ab'], [6, 0, 'cd'], [7, 1, 260.0, None, 1.0, 1, None, 'ef']]
    for cmp_ in (False,):
        msgs.append(('generated', Decoder().process(Encoder().process(pyb.flat_json(4, ids, 3, cmp_, subs)).serialized_bytes)))
    msgs.append(('generated-cmp', Decoder().process(Encoder().process(pyb.flat_json(4, [1001, 102002, 12001, 2001], 2, True, [[1, 250.0, 1, 251.0, 2], [2, 250.0, 1, None, 3]])).serialized_bytes)))
    import os
    from ..common import REPO
    for fn in ('contrived.bufr', 'jaso_214.bufr', 'mpco_217.bufr'):
        with open(os.path.join(REPO, 'tests', 'data', fn), 'rb') as f:
            msgs.append((fn, Decoder().process(f.read())))
    # the same subsets in another order (the first subset has no repetition at all), and every base path under every
    # subset selector: which subsets contribute - and which is the FIRST to contribute - varies with both
    msgs.append(('generated-empty-first', Decoder().process(Encoder().process(pyb.flat_json(4, ids, 3, False, [subs[1], subs[2], subs[0]])).serialized_bytes)))
    # descendant queries over an element that sits directly in a replication block AND in a replication nested inside
    # it: the level-4 result then mixes plain values and deeper lists inside one list
    ids2 = [103002, 1001, 101002, 1001, 12001]
    subs2 = [[1, 2, 3, 4, 5, 6, 250.1], [7, 8, 9, 10, 11, 12, 251.2]]
    msgs.append(('generated-mixed-depth', Decoder().process(Encoder().process(pyb.flat_json(4, ids2, 2, False, subs2)).serialized_bytes)))
    base = ['/001001', '/104000/012001', '/104000/102002/002001', '012001', '/104000.031001', '/104000/102002/011003[0]', '/001015']
    sels = ['', '@[0]', '@[1]', '@[2]', '@[1:]', '@[:2]', '@[::-1]', '@[-1]', '@[::2]']
    crossed = [sel + (' > ' + b if sel and not b.startswith('/') else b) for b in base for sel in sels]
    queries = {'generated': crossed, 'generated-empty-first': crossed,
               'generated-mixed-depth': ['> 001001', '001001', '/103002 > 001001', '/103002/001001', '/103002/101002/001001', '@[1] > 001001', '012001'],
               'generated-cmp': ['/001001', '/102002/012001', '002001', '@[-1]/102002/002001'],
               'contrived.bufr': ['001002', '/301001/001001'], 'jaso_214.bufr': ['/312041/005001', '001007', '@[0:2]/312041/021128'],
               'mpco_217.bufr': ['/005001', '011001', '/116000/010004']}
    recs, meta = [], []
    for name, m in msgs:
        for q in queries[name]:
            vals = {}
            try:
                for lvl in (4, 2, 1, 0):
                    vals[lvl] = ScriptRunner('r = ${%s}' % q, data_values_nest_level=lvl).run(m)['r']
                byp = ScriptRunner('#$ data_values_nest_level = 2\nr = ${%s}' % q).run(m)['r']
                over = ScriptRunner('#$ data_values_nest_level = 2\nr = ${%s}' % q, data_values_nest_level=4).run(m)['r']
                default = ScriptRunner('r = ${%s}' % q).run(m)['r']
            except Exception as e:
                run.violation(('runner', 'exception', type(e).__name__, ''), 'query %r on %s raised %r' % (q, name, e), {'kind': 'levels', 'query': q, 'message': name})
                continue
            index = {}
            l0 = vals[0]
            rec = {'l4': tokens(vals[4], index), 'l2': tokens(vals[2], index), 'l1': tokens(vals[1], index),
                   'l0': [-1] if l0 is None else tokens(l0, index)}
            recs.append(rec)
            meta.append((name, q, vals))
            run.traces += 1
            if byp != vals[2]:
                run.violation(('runner', 'pragma', 'ignored', ''), 'pragma level 2 not honoured for %r' % q, {'kind': 'levels', 'query': q, 'message': name})
            if over != vals[4]:
                run.violation(('runner', 'pragma', 'beats-argument', ''), 'argument does not override the pragma for %r' % q, {'kind': 'levels', 'query': q, 'message': name})
            if default != vals[1]:
                run.violation(('runner', 'default-level', 'not-1', ''), 'default nesting level is not 1 for %r' % q, {'kind': 'levels', 'query': q, 'message': name})
    return recs, meta, msgs


def run_semantics(run, msgs):
    """Running a script binds the names to the query results plus the message and the file name."""
    from pybufrkit.script import ScriptRunner
    from pybufrkit.query import BufrMessageQuerent
    name, m = msgs[0]
    src = "a = ${/001001}\nb = ${%n_subsets}\nc = ${ /001001 }\nd = '${/001001}'  # ${%edition}\n"
    run.traces += 1
    q = BufrMessageQuerent()
    try:
        sr = ScriptRunner(src, data_values_nest_level=4)
        v = sr.run(m)
    except Exception as e:
        run.violation(('runner', 'bindings', 'exception:' + type(e).__name__, ''), 'running %r raised %r' % (src, e), {'kind': 'bindings'})
        return
    ok = (v.get('PBK_BUFR_MESSAGE') is m and v.get('PBK_FILENAME') == m.filename and v['a'] == q.query(m, '/001001').all_values()
          and v['b'] == m.n_subsets.value and v['c'] == v['a'] and v['d'] == '${/001001}' and sr.metadata_only is False
          and set(k for k in v if k.startswith('PBK_')) == {'PBK_0', 'PBK_1', 'PBK_BUFR_MESSAGE', 'PBK_FILENAME'})
    if not ok:
        run.violation(('runner', 'bindings', 'differ', ''), 'variables bound by ScriptRunner.run are not the query results / message / file name',
                      {'kind': 'bindings'})
    run.traces += 1
    try:
        sr2 = ScriptRunner('x = ${%edition} + ${ %n_subsets}')
        good = sr2.metadata_only is True and sr2.run(m)['x'] == m.edition.value + m.n_subsets.value
    except Exception as e:
        good = False
    if not good:
        run.violation(('runner', 'metadata_only', 'differs', 'all-percent'), 'a script with only % expressions must need metadata only', {'kind': 'bindings'})


def run(run):
    import multiprocessing as mp
    wd = workdir('c18')
    try:
        thorough = run.tier == 'thorough'
        # thorough: the full pools (quick rotates one entry out of three of them); five fragments over the pools as they are now
        # would be 12 million scripts, each replayed - the bound stays at four
        cs = consts('scripts', maxfrags=4)
        if not thorough:
            # rotate a smaller pool so that the quick run stays short
            r = seed()
            for k in ('CodePool', 'QuotePool', 'ExprPool'):
                xs = POOLS[k]
                keep = [xs[(r + i) % len(xs)] for i in range(len(xs) - 1)]
                cs[k] = tla_strs(keep)
        text = tlc.mc_module('MC_Scripts', ['Script'], cs)
        cfg = tlc.mc_cfg(cs, invariants=['AutomatonAgreesWithReference', 'NamesFollowExpressions', 'OnlyEmbedsChange', 'EmitScript'])
        res = tlc.run(wd, 'MC_Scripts', cfg, text, coverage=False, lazy_emitted=True, timeout=3400)
        tlc.require_ok(res, 'Script')
        if res.violated:
            run.violation(('spec', res.violated, 'Script'), 'Script invariant violated', tlc.error_trace(res))
        run.add_tlc(res, 'Script: all fragment sequences up to %s' % cs['MaxFrags'])
        recs = list(res.iter_emitted())
        chunks = [recs[i:i + 2000] for i in range(0, len(recs), 2000)]
        with mp.get_context('fork').Pool(14, initializer=fm94._init_worker) as pool:
            out = [x for c in pool.map(_work, chunks) for x in c]
        nemb = 0
        for rec, bad in zip(recs, out):
            run.traces += 1
            if 'embed' in rec['kinds']:
                nemb += 1
                run.nontriv(rec['script'])
            if bad:
                run.violation(bad[0], bad[1], {'kind': 'script', 'record': rec})
        run.notes['scripts_with_embedded_expression'] = nemb
        k = next(i for i, r in enumerate(recs) if len(r['exprs']) == 2 and 'comment' in r['kinds'])
        run.sample(recs[k])
        # ---- nesting levels: recorded from the implementation, validated by TLC
        lrecs, meta, msgs = level_records(run)
        cs2 = consts('levels', recorded=lrecs)
        text = tlc.mc_module('MC_Levels', ['Script'], cs2)
        res = tlc.run(wd, 'MC_Levels', tlc.mc_cfg(cs2, invariants=['EmitLevels']), text, coverage=False, lazy_emitted=True)
        tlc.require_ok(res, 'Script levels')
        run.add_tlc(res, 'Script: %d recorded level tuples validated' % len(lrecs), exhaustive=False)
        verdicts = {v['rid']: v for v in res.iter_emitted()}
        if len(verdicts) != len(lrecs):
            raise MachineryError('levels validation returned %d verdicts for %d records' % (len(verdicts), len(lrecs)))
        for i, (name, q, vals) in enumerate(meta):
            v = verdicts[i + 1]
            for law in ('l2', 'l1', 'l0'):
                if not v[law]:
                    run.violation(('levels', law, 'law-broken', ''), 'query %r on %s: level law %s does not hold: %r' % (q, name, law, vals),
                                  {'kind': 'levels', 'query': q, 'message': name})
            run.nontriv(('levels', name, q))
        run.sample({'query': meta[1][1], 'message': meta[1][0], 'levels': {str(k): v for k, v in meta[1][2].items()}})
        run_semantics(run, msgs)
        from .. import cmd
        cmd.run_commands(run, wd, ['script'], seed())         # the script command: nest level option, metadata-only scripts (Cmd.tla)
    finally:
        rm_workdir(wd)
    run.assumptions = ['escape-free literals (the property says so); fragment contents never contain their own terminator',
                       'a lone $ is never directly followed by {']
    return run.finish('GEN: one case per fragment sequence (non-trivial = with an embedded expression); TRACE: level tuples of real query results',
                      trusted=['TLC', 'Script.tla reference semantics'])


def replay(run, path):
    with open(path) as f:
        d = json.load(f)['replay']
    if d.get('kind') == 'script':
        bad = check_script(d['record'])
        print('replay: %r' % (bad,))
        if bad:
            print('VIOLATION property=C18 replay=%s' % path)
            return 1
    return 0
