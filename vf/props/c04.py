"""C04 - section framing and length accounting are exact in both directions.

spec : Framing.tla (section layouts of editions 2/3/4 written from FM-94) + FramingSM.tla (writer with
       the two length policies, reader consuming declared extents, a shrunk-length fault)
MC   : editions x section 2 absent/0/1 local octets x data lengths (every residue mod 16 in thorough) x
       extra descriptors x declared surplus -1..2 per section (or 0 = "compute") x declared total
       {0, exact, off by one} x trailing bytes: StartsAndEnds, TotalEqualsBytes, DeclaredEqualsExtent,
       PadOnlyZeros, DataPaddingBitsZero, EvenUpToEdition3, HonourRefusesShorter, HonourFillsLonger,
       ReaderConsumesExactly, ReaderNeverFailsOnWritten, ShortDeclaredIsError
GEN  : every terminal state is replayed: the real Encoder (ignore_declared_length = True / False) gets the
       declared lengths and must produce exactly the specification's octets or refuse exactly when the
       specification refuses; the real Decoder reads the specification's octets (+ trailing bytes, or the
       shrunk copy) and must report the same section lengths, total, values and serialized_bytes, or a
       library error exactly when the specification's reader fails
"""
import json

from .. import tlc, pyb
from ..common import workdir, rm_workdir, seed, MachineryError

INVS = ['StartsAndEnds', 'TotalEqualsBytes', 'DeclaredEqualsExtent', 'PadOnlyZeros', 'DataPaddingBitsZero',
        'EvenUpToEdition3', 'HonourRefusesShorter', 'HonourFillsLonger', 'ReaderConsumesExactly',
        'ReaderNeverFailsOnWritten', 'ShortDeclaredIsError', 'TruncatedDataIsError', 'ReaderStartsAtMessage', 'OverrideOnlyChangesVersion', 'Emit']


def lengths_of(msg):
    out = {}
    for sec in msg.sections:
        idx = sec.get_metadata('index')
        if 'section_length' in sec:
            out[idx] = sec.section_length.value
    return out


def check_case(c):
    from pybufrkit.encoder import Encoder
    from pybufrkit.decoder import Decoder
    from pybufrkit.errors import PyBufrKitError
    ed, l2, nb = c['ed'], c['l2'], c['nb']
    feat = 'ed=%d,sec2=%s,nb%%8=%d,policy=%s' % (ed, 'y' if l2 >= 0 else 'n', nb % 8, c['policy'])
    want = bytes(c['octs'])
    decl = c['declared']
    total = {'zero': 0, 'exact': c['total'], 'off': c['total'] + 1}[c['totmode']]
    lengths = {0: total, 1: decl[0], 2: decl[1], 3: decl[2], 4: decl[3]}
    if c['policy'] == 'recompute':
        # declared numbers are present but must be ignored
        lengths = {0: c['total'] + 3, 1: decl[0] + 2, 2: decl[1], 3: decl[2] + 4, 4: max(decl[3] - 1, 0)}
    j = pyb.flat_json(ed, c['ids'], 1, False, [list(c['bits'])], sec2=('10101010' * l2) if l2 >= 0 else None, lengths=lengths)
    # ---------------- writer
    if c['shrink'] == 0:
        try:
            m = Encoder(ignore_declared_length=(c['policy'] == 'recompute'), master_table_version=c['ovr'] or None).process(j)
            got = m.serialized_bytes
        except PyBufrKitError:
            got = None
        except Exception as e:
            return (('writer', 'exception', type(e).__name__, feat), 'encoder raised %r' % (e,))
        if c['outcome'] == 'Refuse':
            if got is not None:
                return (('writer', 'not-refused', 'declared-shorter' if any(0 < 0 for _ in ()) else 'declared', feat),
                        'encoder accepted declared lengths %r (real %r, total mode %s) that must be refused' % (decl, c['real'], c['totmode']))
            return None
        if got is None:
            return (('writer', 'refused', 'valid-input', feat), 'encoder refused declared lengths %r (real %r)' % (decl, c['real']))
        if got != want:
            k = next((i for i in range(min(len(got), len(want))) if got[i] != want[i]), min(len(got), len(want)))
            return (('writer', 'bytes', 'differ', feat), 'encoder output differs at octet %d (lengths %d / %d); declared %r real %r' % (
                k, len(got), len(want), decl, c['real']))
        ls = lengths_of(m)
        for i in range(1, 5):
            if c['written'][i - 1] and ls.get(i) != c['written'][i - 1]:
                return (('writer', 'reported-length', 'section', feat), 'section %d length reported %r, written %d' % (i, ls.get(i), c['written'][i - 1]))
        if m.length.value != c['total']:
            return (('writer', 'reported-length', 'total', feat), 'total length reported %r, written %d' % (m.length.value, c['total']))
    if c['outcome'] != 'Done':
        return None
    return reader_check(c, Decoder(), feat, want)


def reader_check(c, decoder, feat, want, **options):
    """The reader side of one case through the given Decoder object (a fresh one, or one that has read other
    messages - other editions, with or without section 2 - before, possibly with per-call options)."""
    from pybufrkit.errors import PyBufrKitError
    ed, l2, nb = c['ed'], c['l2'], c['nb']
    data = bytes(c['input'])
    try:
        d = decoder.process(data, **options)
        err = None
    except PyBufrKitError as e:
        d, err = None, e
    except Exception as e:
        return (('reader', 'exception', type(e).__name__, feat), 'decoder raised %r' % (e,))
    if c['rerr']:
        if d is not None:
            return (('reader', 'accepted', 'shrunk-section-%d' % c['shrink'], feat), 'a section declared shorter than it is was accepted')
        return None
    if d is None:
        return (('reader', 'refused', 'valid-message', feat), 'decoder raised %r on a well-formed message' % (err,))
    if c['shrink'] == 5:
        # a consistent message one octet shorter that still holds its data: it is its own span, lengths as declared
        lead, trail = len(c['leading']), len(c['trailing'])
        own = data[lead:len(data) - trail]
        if d.serialized_bytes != own or d.length.value != len(own) or pyb.values_of(d, 0) != list(c['bits']):
            return (('reader', 'truncated-pad', 'differs', feat), 'a message without its pad octet decodes to other bytes / length / values')
        return None
    if d.serialized_bytes != want:
        return (('reader', 'serialized_bytes', 'differ', 'trailing' if c['trailing'] else 'no-trailing'),
                'serialized_bytes has %d octets, the message %d' % (len(d.serialized_bytes), len(want)))
    ls = lengths_of(d)
    for i in range(1, 5):
        if c['written'][i - 1] and ls.get(i) != c['written'][i - 1]:
            return (('reader', 'reported-length', 'section', feat), 'section %d length %r, declared %d' % (i, ls.get(i), c['written'][i - 1]))
    if d.length.value != c['total']:
        return (('reader', 'reported-length', 'total', feat), 'total length %r, declared %d' % (d.length.value, c['total']))
    if d.master_table_version.value != (c['ovr'] or 33):
        return (('reader', 'master-table-version', 'differs', 'override' if c['ovr'] else 'given'),
                'master table version %r, expected %d' % (d.master_table_version.value, c['ovr'] or 33))
    if pyb.values_of(d, 0) != list(c['bits']):
        return (('reader', 'values', 'differ', feat), 'values %r, expected %r' % (pyb.values_of(d, 0), c['bits']))
    if l2 >= 0:
        sec2 = [s for s in d.sections if s.get_metadata('index') == 2]
        if not sec2:
            return (('reader', 'section2', 'missing', feat), 'section 2 not reported')
    return None


def _work(cs):
    from pybufrkit.decoder import Decoder
    out = [check_case(c) for c in cs]
    # the same inputs once more through ONE Decoder object, every other one with expected values not enforced: what a
    # call leaves in the decoder (or an option of an earlier call) must not change how the next message is framed
    shared = Decoder()
    for k, c in enumerate(cs):
        if out[k] is None and c['outcome'] == 'Done' and (c['shrink'] == 0 or k % 2):
            feat = 'ed=%d,sec2=%s,nb%%8=%d,policy=%s' % (c['ed'], 'y' if c['l2'] >= 0 else 'n', c['nb'] % 8, c['policy'])
            bad = reader_check(c, shared, feat, bytes(c['octs']), **({'ignore_value_expectation': True} if k % 2 == 0 else {}))
            if bad:
                out[k] = (('shared-decoder',) + tuple(bad[0]), 'after %d other messages through the same Decoder object: %s' % (k, bad[1]))
    return out


def run(run):
    import multiprocessing as mp
    from .. import fm94
    wd = workdir('c04')
    try:
        thorough = run.tier == 'thorough'
        r = seed() % 8
        nbs = list(range(0, 33)) if thorough else sorted({0, 1, 7, 8, 9, 15, 16, 17, (r + 2) % 16, 10 + r, 31})
        consts = {'EditionsC': '{2,3,4}', 'Sec2Lens': '{-1,0,1,2}' if thorough else '{-1,0,1}',
                  'DataBits': '{' + ','.join(map(str, nbs)) + '}', 'ExtraOps': '{0,1}',
                  'Surplus': '{-1,0,1,2}', 'MaxChanged': '2' if thorough else '1'}
        text = tlc.mc_module('MC_FramingSM', ['FramingSM'], consts)
        cfg = tlc.mc_cfg(consts, invariants=INVS)
        res = tlc.run(wd, 'MC_FramingSM', cfg, text, coverage=True, lazy_emitted=True, timeout=3000)
        tlc.require_ok(res, 'FramingSM')
        if res.violated:
            run.violation(('spec', res.violated, 'FramingSM'), 'FramingSM invariant violated', tlc.error_trace(res))
        zero = res.zero_actions()
        if zero:
            raise MachineryError('FramingSM actions never taken: %r' % zero)
        run.add_tlc(res, 'FramingSM: editions x section 2 x %d data lengths x surpluses x policies' % len(nbs))
        cases = list(res.iter_emitted())
        # neighbours differ in edition, then in section 2: one Decoder object per chunk reads them one after the other
        cases.sort(key=lambda c: (c['nb'], c['xo'], str(c['sur']), c['totmode'], c['policy'], len(c['trailing']), len(c['leading']), c['ovr'], c['shrink'], c['l2'], c['ed']))
        chunks = [cases[i:i + 100] for i in range(0, len(cases), 100)]
        with mp.get_context('fork').Pool(14, initializer=fm94._init_worker) as pool:
            out = [x for c in pool.map(_work, chunks) for x in c]
        for c, bad in zip(cases, out):
            run.traces += 1
            run.nontriv((c['ed'], c['l2'], c['nb'], c['xo'], c['policy'], tuple(c['sur']), c['totmode'], bool(c['trailing']), c['shrink'], bool(c['leading']), c['ovr']))
            if bad:
                run.violation(('framing',) + tuple(bad[0]), bad[1], {'kind': 'framing', 'case': c})
        import collections
        run.notes['outcomes'] = dict(collections.Counter(c['outcome'] + ('/reader-error' if c['rerr'] else '') for c in cases))
        k = len(cases) // 2
        run.sample({x: cases[k][x] for x in ('ed', 'l2', 'nb', 'ids', 'policy', 'sur', 'totmode', 'declared', 'real', 'written', 'total', 'outcome', 'shrink')})
    finally:
        rm_workdir(wd)
    run.assumptions = ['section 3 takes at most one surplus octet: two more octets are, by FM-94, one more descriptor',
                       'a refusal by the encoder must be a PyBufrKitError; the shrunk-length fault is applied to sections 1 and 4 only (where "shorter than the content" is decidable)']
    return run.finish('GEN: one case per terminal state of FramingSM (edition, section 2, data length, descriptors, policy, declared lengths, total mode, trailing, fault)',
                      trusted=['TLC', 'Framing.tla / FramingSM.tla as the reading of FM-94 section layouts'])


def replay(run, path):
    with open(path) as f:
        d = json.load(f)['replay']
    bad = check_case(d['case'])
    print('replay: %r' % (bad,))
    if bad:
        print('VIOLATION property=C04 replay=%s' % path)
        return 1
    return 0
