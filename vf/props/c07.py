"""C07 - bitmap-driven and associated attributes are linked to the element they qualify.

spec : FM94.tla bitmap automaton (INDICATOR -> WAITING -> COUNTING -> NA), reuse / recall / cancel,
       back-reference window, zero-bit selection, meaning registers (031021 / 008023 / 008024)
MC   : action property KthValueKthZero (the k-th linked value belongs to the k-th zero bit, stated with
       an independent NthZero scan), invariants BackRefWindowIsPlain, BackRefWindowAscending,
       AssocPrecedesOwner, DiffStatsParams, MeaningIsRightElement, LinksPointBack - over all base
       templates x bitmap lengths 1..N x all 0/1 patterns x operator chains x compressed/uncompressed
GEN  : every behaviour is decoded by the real Decoder: bitmap_links per subset = the specification's
       links; the hierarchical view (decoded_nodes) must show each linked / associated value as an
       attribute of exactly that owner, with the 031021 / 008023 / 008024 element as its meaning;
       marker labels and 225255 parameters are part of the value comparison; the real Encoder must
       reproduce the message from the values
"""
import json

from .. import tlc, fm94, pyb
from ..common import MachineryError,  workdir, rm_workdir, seed

POOL = [12001, 11003, 1001, 2001, 1015, 7001, 10004, 2003]


def base_variants(n):
    """Element runs ending in at least n plain elements (different shapes in front of the operator)."""
    plain = POOL[:n]
    yield 'plain', plain
    yield 'longer-run', [13011, 12101] + plain                      # bitmap shorter than the run
    if n >= 2:
        yield 'fixed-repl', [100000 + 1000 + 2, plain[0]] + plain[2:] if n > 2 else [101002, plain[0]]
    if n == 3:
        yield 'sequence', [301011]
    if n >= 2:
        yield 'assoc', [204004, 31021] + plain + [204000]


def op_chains(n, thorough):
    bm = [101000 + n, 31031]
    mk = lambda y: [101000, 31001, y]
    yield '222', [222000] + bm + [101000, 31001, 33007]
    yield '223', [223000] + bm + mk(223255)
    yield '224', [224000] + bm + [8023] + mk(224255)
    yield '225', [225000] + bm + [8024] + mk(225255)
    yield '232', [232000] + bm + mk(232255)
    yield '224+225 recall', [224000, 236000] + bm + [8023] + mk(224255) + [225000, 237000, 8024] + mk(225255)
    yield '222+223 recall', [222000, 236000] + bm + [101000, 31001, 33003] + [223000, 237000] + mk(223255)
    if thorough or n <= 3:
        yield '224 cancel redefine', [224000, 236000] + bm + [8023] + mk(224255) + [237255, 224000] + bm + [8023] + mk(224255)
        yield '223 235 redefine', [223000] + bm + mk(223255) + [235000] + POOL[5:5 + 1] + [223000, 101001, 31031] + mk(223255)
        yield '225 twice new bitmap', [225000] + bm + [8024] + mk(225255) + [225000] + bm + [8024] + mk(225255)
    if n <= 2 or (thorough and n <= 3):
        # chains of three definitions without cancelling the back references: kept for reuse / direct / kept for reuse
        # (each bitmap chosen independently, so the third may or may not equal the first), and a recall after a
        # direct definition that followed a kept one
        yield '236 direct 236', ([224000, 236000] + bm + [8023] + mk(224255) + [223000] + bm + mk(223255)
                                 + [225000, 236000] + bm + [8024] + mk(225255))
        yield '236 direct recall', ([223000, 236000] + bm + mk(223255) + [232000] + bm + mk(232255)
                                    + [224000, 237000, 8023] + mk(224255))
        yield 'direct 236 direct', ([232000] + bm + mk(232255) + [222000, 236000] + bm + [101000, 31001, 33007]
                                    + [223000] + bm + mk(223255))


def templates(nmax, thorough):
    groups = {}
    for n in range(1, nmax + 1):
        ts = []
        for bname, base in base_variants(n):
            for oname, chain in op_chains(n, thorough):
                if bname != 'plain' and oname not in ('224', '222', '225', '224+225 recall', '236 direct 236') and not thorough:
                    continue
                ts.append(base + chain)
        groups[n] = ts
    return groups


def impl_tree_relations(msg, i):
    """From the real hierarchical view: {(attribute index, owner index)} and {(index, meaning index)}."""
    td = msg.template_data.value
    owned, meaning = set(), set()
    descs = td.decoded_descriptors_all_subsets[i]
    seen = []

    def visit(node):
        seen.append(node.index)
        for a in getattr(node, 'attributes', []):
            lab = str(descs[a.index])
            if lab in ('031021', '008023', '008024'):
                meaning.add((node.index, a.index))
            else:
                owned.add((a.index, node.index))
                for b in getattr(a, 'attributes', []):
                    if str(descs[b.index]) in ('031021', '008023', '008024'):
                        meaning.add((a.index, b.index))

    def walk(nodes):
        for node in nodes:
            if hasattr(node, 'members'):
                if getattr(node, 'factor', None) is not None:
                    visit(node.factor)
                walk(node.members)
            elif hasattr(node, 'index'):
                visit(node)

    walk(td.decoded_nodes_all_subsets[i])
    return owned, meaning, seen


def spec_relations(ents):
    owned, meaning = set(), set()
    for k, (lab, sv, link, e) in enumerate(ents):
        if link > 0:
            owned.add((k, link - 1))
        if lab.startswith('A'):
            owned.add((k, k + 1))
        if e['mean'] > 0:
            meaning.add((k, e['mean'] - 1))
    return owned, meaning


def check_one(beh):
    bad, msg = fm94.replay_decode(beh)
    if bad:
        return bad
    if beh.get('scoped'):
        # the links of a Scope.Scoped program with template compilation on (one compiling decoder per worker): values, labels
        # and bitmap links as the specification says - a compiled template replays 235000 / 237255 / 236000 like the walk does
        bad, _ = fm94.replay_decode(beh, decoder=fm94._compiling('dec'))
        if bad:
            return (('compiled',) + tuple(bad[0]), 'with template compilation: ' + bad[1])
    for i, ents in enumerate(fm94.subsets_of(beh)):
        try:
            owned, meaning, seen = impl_tree_relations(msg, i)
        except Exception as e:
            return (('tree', 'exception', type(e).__name__, ''), 'walking the hierarchical view raised %r' % (e,))
        so, sm = spec_relations(ents)
        if owned != so:
            return (('tree', 'attribute-owner', 'differ', ''),
                    'subset %d: attributes attached as %r, specification %r' % (i, sorted(owned), sorted(so)))
        if meaning != sm:
            return (('tree', 'meaning', 'differ', ''),
                    'subset %d: meanings attached as %r, specification %r' % (i, sorted(meaning), sorted(sm)))
    bad, m2 = fm94.replay_encode(beh, canonical=not beh['cmp'])
    if bad:
        return bad
    if beh['cmp']:
        from pybufrkit.decoder import Decoder
        try:
            bad = fm94.compare_decoded(beh, Decoder().process(m2.serialized_bytes), what='decode-of-encoded')
        except Exception as e:
            bad = (('decode-of-encoded', 'exception', type(e).__name__, ''), repr(e))
    return bad


def _work(behs):
    return [check_one(b) for b in behs]


INVS = ['TypeOK', 'MissingIffAllOnes', 'LinksPointBack', 'BackRefWindowIsPlain', 'BackRefWindowAscending',
        'AssocPrecedesOwner', 'MeaningIsRightElement', 'FramesNested']


def run(run):
    import multiprocessing as mp
    wd = workdir('c07')
    try:
        thorough = run.tier == 'thorough'
        nmax = 5 if thorough else 4
        rot = seed() % 5
        nlinks = 0
        for n, ts in sorted(templates(nmax, thorough).items()):
            counts = (1, 2) if n <= (3 if thorough else 2) else (1,)
            res = fm94.gen_run(wd, 'MC_c07_N%d' % n, ts, compressions=(False, True), subset_counts=counts, fmax=2,
                               seeds=((rot + n) % 5,), slack=0, invariants=INVS, properties=('KthValueKthZero', 'DiffStatsParams'),
                               editions=(4,) if n % 2 else (3,))
            if res.violated:
                run.violation(('spec', res.violated, 'N=%d' % n), 'FM94 property %s violated' % res.violated, tlc.error_trace(res))
            run.add_tlc(res, 'FM94 produce, bitmap length %d, all patterns, %d templates' % (n, len(ts)))
            behs = [b for b in res.iter_emitted() if not b['err']]
            chunks = [behs[i:i + 30] for i in range(0, len(behs), 30)]
            if chunks:
                with mp.get_context('fork').Pool(14, initializer=fm94._init_worker) as pool:
                    out = [x for c in pool.map(_work, chunks) for x in c]
                for beh, bad in zip(behs, out):
                    run.traces += 1
                    if any(e['link'] > 0 for s in beh['subsets'] for e in s):
                        run.nontriv(fm94.structure_key(beh) + (tuple(tuple(e['link'] for e in s) for s in beh['subsets']),))
                        nlinks += 1
                    if bad:
                        run.violation(('bitmap',) + tuple(bad[0]), bad[1], {'kind': 'behaviour', 'behaviour': beh})
                b = behs[len(behs) // 2]
                run.sample({'ids': b['ids'], 'cmp': b['cmp'], 'nsub': b['nsub'],
                            'links_subset0': [(k, e['link'] - 1) for k, e in enumerate(b['subsets'][0]) if e['link'] > 0]}, limit=5)
        # grammar-derived bitmap templates of this seed (vf/gen.py): operators in force at markers, reuse / cancel chains,
        # replications and sequences in front of the window
        from .. import catalogue
        rnd = catalogue.catalogue(run.tier, seed())['rnd_bitmap']
        res = fm94.gen_run(wd, 'MC_c07_rnd', rnd, compressions=(False, True), subset_counts=(1, 2), fmax=2, seeds=(rot,), slack=0,
                           invariants=INVS, properties=('KthValueKthZero', 'DiffStatsParams'))
        if res.violated:
            run.violation(('spec', res.violated, 'rnd'), 'FM94 property %s violated' % res.violated, tlc.error_trace(res))
        run.add_tlc(res, 'FM94 produce, %d grammar-derived bitmap templates' % len(rnd))
        behs = [b for b in res.iter_emitted() if not b['err']]
        chunks = [behs[i:i + 30] for i in range(0, len(behs), 30)]
        if chunks:
            with mp.get_context('fork').Pool(14, initializer=fm94._init_worker) as pool:
                out = [x for c in pool.map(_work, chunks) for x in c]
            for beh, bad in zip(behs, out):
                run.traces += 1
                if any(e['link'] > 0 for s in beh['subsets'] for e in s):
                    run.nontriv(fm94.structure_key(beh) + (tuple(tuple(e['link'] for e in s) for s in beh['subsets']),))
                    nlinks += 1
                if bad:
                    run.violation(('bitmap',) + tuple(bad[0]), bad[1], {'kind': 'behaviour', 'behaviour': beh})
        # two subsets whose bitmap operator sits at the same flat position with a bitmap of the same length - over different elements
        res = fm94.gen_run(wd, 'MC_c07_swap', catalogue.catalogue(run.tier, seed())['swap'], compressions=(False,), subset_counts=(2,), fmax=2,
                           seeds=((rot + 2) % 5,), slack=0, invariants=INVS, properties=('KthValueKthZero',))
        if res.violated:
            run.violation(('spec', res.violated, 'swap'), 'FM94 property %s violated' % res.violated, tlc.error_trace(res))
        run.add_tlc(res, 'FM94 produce, replication counts swapped between the subsets')
        behs = [b for b in res.iter_emitted() if not b['err']]
        with mp.get_context('fork').Pool(14, initializer=fm94._init_worker) as pool:
            out = [x for c in pool.map(_work, [behs[i:i + 30] for i in range(0, len(behs), 30)]) for x in c]
        for beh, bad in zip(behs, out):
            run.traces += 1
            if any(e['link'] > 0 for s_ in beh['subsets'] for e in s_):
                run.nontriv(fm94.structure_key(beh) + ('swap',))
            if bad:
                run.violation(('bitmap',) + tuple(bad[0]), bad[1], {'kind': 'behaviour', 'behaviour': beh})
        # an associated field belongs to the element it precedes - also where 204 is nested and after the INNER 204000, when one level
        # is still in force (FM94.NestedAssoc: pybufrkit's reading of what FM-94 leaves open; flat data and tree must agree on it)
        res = fm94.gen_run(wd, 'MC_c07_assoc2', catalogue.catalogue(run.tier, seed())['assoc2'], compressions=(False, True), subset_counts=(1, 2), fmax=2,
                           seeds=((rot + 1) % 5,), slack=0, invariants=INVS, properties=('KthValueKthZero',), nested_assoc=True)
        if res.violated:
            run.violation(('spec', res.violated, 'assoc2'), 'FM94 property %s violated' % res.violated, tlc.error_trace(res))
        run.add_tlc(res, 'FM94 produce, nested associated fields')
        behs = [b for b in res.iter_emitted() if not b['err']]
        if not behs:
            raise MachineryError('no behaviour with nested associated fields')
        with mp.get_context('fork').Pool(14, initializer=fm94._init_worker) as pool:
            out = [x for c in pool.map(_work, [behs[i:i + 30] for i in range(0, len(behs), 30)]) for x in c]
        for beh, bad in zip(behs, out):
            run.traces += 1
            run.nontriv(fm94.structure_key(beh) + ('assoc2',))
            if bad:
                run.violation(('assoc',) + tuple(bad[0]), bad[1], {'kind': 'behaviour', 'behaviour': beh})
        run.notes['behaviours_with_at_least_one_link'] = nlinks
        # markers on elements whose Table B entry depends on the master table version, decoded alternately under three
        # versions by ONE Decoder in one process: the marker follows the element of the message at hand
        fm94.cross_version_pass(run, wd, ('decode', 'encode'), seed())
    finally:
        rm_workdir(wd)
    run.assumptions = ['204 is closed before the bitmap operator (204 across marker operators is outside WF)',
                       'the back-reference window counts every plain element descriptor, class 31 included (BackRefIncludesClass31)']
    return run.finish('GEN: base templates x bitmap length 1..N x every 0/1 pattern x operator chains x compressed/uncompressed; '
                      'distinct_nontrivial = behaviours with at least one link, distinct by structure and link vector',
                      trusted=['TLC', 'FM94.tla bitmap automaton as the reading of FM-94 Table C notes'])


def replay(run, path):
    with open(path) as f:
        d = json.load(f)['replay']
    bad = check_one(d['behaviour'])
    print('replay: %r' % (bad,))
    if bad:
        print('VIOLATION property=C07 replay=%s' % path)
        return 1
    return 0
