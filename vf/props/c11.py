"""C11 - a byte stream is split into exactly the messages it contains.

spec : Stream.tla - streams of 0..n pool messages (editions 2/3/4, compressed or not, one with BUFR and
       7777 in its payload) between separators (empty, bulletin heading, noise with BUF / 777, partial
       signature, stray 7777); the scanner as a state machine with one action per loop exit
MC   : all streams up to the bound x {full, metadata-only} x {filter, no filter}: YieldsExactlyMessages,
       NeverRaisesOnValid, DecoyNeverStartsMessage, YieldedSpansAreDisjointAndOrdered
GEN  : every terminal state is run through generate_bufr_message with hooks on: delivered bytes, end status
       and the (found-at, next-cursor, outcome) of EVERY loop iteration are compared with the history
       variable of the specification; a sample of streams goes through `pybufrkit split` and `info -c`
       in subprocesses and the written pieces are compared and concatenated
"""
import json
import os

from .. import stream, tlc
from ..common import workdir, rm_workdir, seed, MachineryError

VALID_MODES = '{[info |-> i, cont |-> c, filt |-> f, ive |-> v] : i \\in BOOLEAN, c \\in {FALSE}, f \\in BOOLEAN, v \\in BOOLEAN}'


def cli_split(run, wd, cases):
    for n, c in enumerate(cases):
        d = os.path.join(wd, 'split%d' % n)
        os.makedirs(d)
        fn = os.path.join(d, 's.bufr')
        data = bytes(c['stream'])
        with open(fn, 'wb') as f:
            f.write(data)
        rc, out, err = stream.cli(['split', fn])
        want = [data[y['at']: y['at'] + y['len']] for y in c['yielded']]
        got = []
        k = 0
        while os.path.exists('%s.%d' % (fn, k)):
            with open('%s.%d' % (fn, k), 'rb') as f:
                got.append(f.read())
            k += 1
        run.traces += 1
        if rc != 0 or got != want:
            run.violation(('cli', 'split', 'pieces-differ' if rc == 0 else 'exit-%d' % rc, ''),
                          'pybufrkit split wrote %d pieces, specification %d (rc %d, stderr %r)' % (len(got), len(want), rc, err[-300:]),
                          {'kind': 'stream', 'case': c})
            continue
        rc, out, err = stream.cli(['info', '-c', fn])
        if rc != 0 or out.strip().split(':')[-1].strip() != str(len(want)):
            run.violation(('cli', 'info-count', 'differs', ''), 'info -c printed %r, expected %d messages' % (out.strip(), len(want)),
                          {'kind': 'stream', 'case': c})


def run(run):
    wd = workdir('c11')
    try:
        thorough = run.tier == 'thorough'
        r = seed() % 5
        plans = [('n<=2 all separators', dict(maxmsgs=2, pool=(1, 2, 3, 4, 6), seps=(1, 2, 3, 4, 5), faults=(), modes=VALID_MODES)),
                 ('n<=3 uniform separators', dict(maxmsgs=3, pool=(1, 2, 3, 4) if thorough else (1, 2, 3), seps=(1, 2, 3, 4, 5) if thorough else (1, 2 + r % 4),
                                                 faults=(), modes=VALID_MODES, uniform=True))]
        # length sweep: 256 (thorough 509) consecutive total lengths, i.e. every value of the low length octet, 16 messages per stream
        lo = 2 + (seed() % 3) * 85 if not thorough else 2
        plans.append(('length sweep', dict(maxmsgs=-1, pool=(), seps=(), faults=(), modes=VALID_MODES, sweep=(lo, lo + 255 if not thorough else 510, 16))))
        sample = []
        for label, kw in plans:
            res = stream.tlc_run(wd, 'MC_c11_%d' % len(sample), **kw)
            if res.violated:
                run.violation(('spec', res.violated, label), 'Stream invariant violated', tlc.error_trace(res))
            run.add_tlc(res, 'Stream (valid messages) ' + label)
            cases = list(res.iter_emitted())
            if 'uniform' in label:
                for c in cases:
                    c['filter'] = stream.FILTER_ED4_ONLY
            stream.replay_cases(run, cases, 'split')
            if cases:
                run.sample(stream.brief(cases[len(cases) // 2]), limit=3)
                step = max(1, len(cases) // (25 if thorough else 8))
                sample += [c for c in cases[r::step] if c['mode']['info'] and not c['mode']['filt']][:25 if thorough else 8]
        cli_split(run, wd, sample)
        run.notes['cli_split_cases'] = len(sample)
        # the command line (Cmd.tla): info / info -m / info -c / split over files of several messages, one of them with a damaged stop
        # signature that metadata-only scanning does not notice; decode -m with and without the filter
        from .. import cmd
        cmd.run_commands(run, wd, ['info', 'split'], seed())
    finally:
        rm_workdir(wd)
    run.assumptions = ['separators do not contain the start signature (the property says so); payload decoys are inside a character field',
                       'filter expression used: ${%edition} == 4']
    return run.finish('GEN: one case per (stream layout, mode); every loop iteration compared through the hook events; CLI split/info on a sample',
                      trusted=['TLC', 'Stream.tla', 'Framing.tla (the messages of the pool are assembled by the specification)'])


def replay(run, path):
    with open(path) as f:
        d = json.load(f)['replay']
    bad = stream.run_case(d['case'])
    print('replay: %r' % (bad,))
    if bad:
        print('VIOLATION property=C11 replay=%s' % path)
        return 1
    return 0
