"""C19 - bit-level reading and writing are exact inverses for every width.

spec: BitStream.tla (writer/reader state machine, one action per public method)
MC  : exhaustive over lead-in 0..7 x width 1..64 x value class x {uint,int,set,refuse}, plus bool/bin/bytes/skip
GEN : every complete behaviour is emitted by TLC and stepped through the real
      get_bit_writer()/get_bit_reader(); position after every action, the final
      octets and every read result are compared with the specification's state.
SIM : long mixed field sequences (tlc -simulate).
"""
import json

from .. import tlc
from ..common import MachineryError, workdir, rm_workdir, seed

INVS = ['TypeOK', 'LayoutTilesStream', 'ReadReturnsWritten', 'CursorsAgree', 'MissingOnlyAboveOneBit',
        'OctetAlignedWhenRead', 'PastEndIsError', 'Emit']
PROPS = ['SetUintTouchesOnlyItsBits', 'RefusedWritesNothing']

BYTE_INPUTS = [[], [65], [65, 32, 66], [255, 255], [66, 67, 68, 69, 70]]

EXTRA = '''
AtMostOneAppend == Cardinality({i \\in 1..Len(layout) : layout[i].typ # "bin"}) <= 1
'''


def consts(widths, leadins, maxfields, kinds, uclasses=(0, 1, 2, 3, 4), bytelens=(0, 1, 3)):
    return {
        'Widths': '{' + ', '.join(str(w) for w in widths) + '}',
        'LeadIns': '{' + ', '.join(str(w) for w in leadins) + '}',
        'MaxFields': str(maxfields),
        'Kinds': '{' + ', '.join('"%s"' % k for k in kinds) + '}',
        'ByteLens': '{' + ', '.join(str(w) for w in bytelens) + '}',
        'ByteInputs': '{' + ', '.join(tlc.tla_val(b) if b else '<<>>' for b in BYTE_INPUTS) + '}',
        'UintClasses': '{' + ', '.join(str(c) for c in uclasses) + '}',
    }


def b2i(bs):
    v = 0
    for b in bs:
        v = v * 2 + b
    return v


def feature(n):
    return ('n<8' if n < 8 else 'n=24' if n == 24 else 'n>=8') + (',octet-multiple' if n % 8 == 0 else ',not-octet-multiple')


def replay_behaviour(beh):
    """Step one specification behaviour through the real writer and reader.
    Returns None if the implementation follows it, else (signature, detail)."""
    from pybufrkit.bitops import get_bit_writer, get_bit_reader
    from pybufrkit.errors import BitReadError
    w = get_bit_writer()
    for i, op in enumerate(beh['ops']):
        k, n, v = op['op'], op['n'], op['v']
        try:
            if k == 'write_uint':
                w.write_uint(b2i(v), n)
            elif k == 'write_int':
                mag = b2i(v[1:])
                w.write_int(-mag if v[0] else mag, n)
            elif k == 'write_bool':
                w.write_bool(bool(v[0]))
            elif k == 'write_bin':
                w.write_bin(''.join(str(b) for b in v))
            elif k == 'write_bytes':
                data = bytes(v)
                w.write_bytes(data if i % 2 else data.decode('latin-1'), n)
            elif k == 'skip':
                w.skip(n)
            elif k == 'set_uint':
                w.set_uint(b2i(v), n, op['at'])
            elif k in ('write_uint_overflow', 'write_uint_negative'):
                val = (1 << n) if k == 'write_uint_overflow' else -1
                try:
                    w.write_uint(val, n)
                except Exception:
                    pass
                else:
                    return (('write', k, 'accepted', feature(n)),
                            'op %d %s(%d bits): value %d was accepted' % (i, k, n, val))
            elif k in ('set_uint_overflow', 'set_uint_negative', 'set_uint_negative_half'):
                val = {'set_uint_overflow': 1 << n, 'set_uint_negative': -1, 'set_uint_negative_half': -(1 << (n - 1))}[k]
                try:
                    w.set_uint(val, n, op['at'])
                except Exception:
                    pass
                else:
                    return (('write', k, 'accepted', feature(n)),
                            'op %d %s(%d bits at %d): value %d was accepted' % (i, k, n, op['at'], val))
            elif k == 'write_int_overflow':
                mag = b2i(v[1:])
                try:
                    w.write_int(-mag if v[0] else mag, n)
                except Exception:
                    return None     # refused; the behaviour ends here
                return (('write', k, 'accepted', feature(n)),
                        'op %d write_int(%d bits): value %d was accepted' % (i, n, -mag if v[0] else mag))
            else:
                raise MachineryError('unknown op ' + k)
        except MachineryError:
            raise
        except Exception as e:
            return (('write', k, 'exception:' + type(e).__name__, feature(n)),
                    'op %d %s n=%d raised %r' % (i, k, n, e))
        if w.get_pos() != op['pos']:
            return (('write', k, 'position', feature(n)),
                    'op %d %s n=%d: writer position %d, specification %d' % (i, k, n, w.get_pos(), op['pos']))
    try:
        data = w.to_bytes()
    except Exception as e:
        return (('write', 'to_bytes', 'exception:' + type(e).__name__, ''), repr(e))
    got = [int(c) for byte in data for c in format(byte, '08b')]
    if got != beh['bits']:
        lastset = [op for op in beh['ops'] if op['op'] == 'set_uint']
        k = 'set_uint' if lastset else 'stream'
        n = lastset[-1]['n'] if lastset else 0
        first = next((j for j in range(min(len(got), len(beh['bits']))) if got[j] != beh['bits'][j]), None)
        return (('write', k, 'bits-differ', feature(n)),
                'stream differs from specification at bit %s (lengths %d / %d)' % (first, len(got), len(beh['bits'])))
    # ---- read phase: two readers, one reporting missing values, one not
    for variant in ('or_none', 'generic'):
        r = get_bit_reader(data)
        for i, rd in enumerate(beh['reads']):
            t, n, v = rd['typ'], rd['n'], rd['v']
            past = (v == [] and n == 1 and i >= len(beh['reads']) - 5)
            try:
                if t == 'uint':
                    if variant == 'or_none':
                        got_v = r.read_uint_or_none(n)
                        exp_v = None if rd['missing'] else b2i(v)
                    else:
                        got_v = r.read('uint', n)
                        exp_v = b2i(v)
                elif t == 'int':
                    nn = 2 if past else n
                    got_v = r.read_int(nn) if variant == 'or_none' else r.read('int', nn)
                    exp_v = (-1 if v and v[0] else 1) * b2i(v[1:])
                elif t == 'bool':
                    got_v = r.read_bool() if variant == 'or_none' else r.read('bool', 1)
                    exp_v = bool(v[0]) if v else None
                elif t == 'bin':
                    got_v = r.read_bin(n) if variant == 'or_none' else r.read('bin', n)
                    exp_v = ''.join(str(b) for b in v)
                elif t == 'bytes':
                    got_v = r.read_bytes(n) if variant == 'or_none' else r.read('bytes', 8 * n)
                    exp_v = bytes(v)
                else:
                    raise MachineryError('unknown read type ' + t)
            except MachineryError:
                raise
            except BitReadError:
                if past:
                    if r.get_pos() != rd['pos']:
                        return (('read', t, 'position-after-error', 'past-end'),
                                'reader moved to %d after a failed read at %d' % (r.get_pos(), rd['pos']))
                    continue
                return (('read', t, 'exception:BitReadError', feature(n)), 'read %d %s(%d) raised BitReadError' % (i, t, n))
            except Exception as e:
                return (('read', t, 'exception:' + type(e).__name__, 'past-end' if past else feature(n)),
                        'read %d %s(%d) raised %r' % (i, t, n, e))
            if past:
                return (('read', t, 'no-error', 'past-end'),
                        'read %d %s past the end returned %r' % (i, t, got_v))
            if got_v != exp_v or type(got_v) is not type(exp_v):
                return (('read', t, 'value', feature(n)),
                        'read %d %s(%d): got %r, specification %r' % (i, t, n, got_v, exp_v))
            if r.get_pos() != rd['pos']:
                return (('read', t, 'position', feature(n)),
                        'read %d %s(%d): reader position %d, specification %d' % (i, t, n, r.get_pos(), rd['pos']))
    return None


def configs(tier):
    full = list(range(1, 65))
    cfgs = [
        ('A uint/int/refuse every width x class x offset',
         consts(full, range(8), 1, ['uint', 'int', 'refuse']), [], None),
        ('B in-place overwrite every width x class x offset',
         consts(full, range(8), 2, ['uint', 'set'], uclasses=(0, 4)), ['AtMostOneAppend'], None),
        ('C bool/bin/bytes/skip pairs',
         consts([1], [0, 1, 5], 2, ['bool', 'bin', 'bytes', 'skip']), [], None),
    ]
    nsim = 300 if tier == 'quick' else 3000
    nf = 60 if tier == 'quick' else 200
    cfgs.append(('SIM mixed sequences of up to %d fields' % nf,
                 consts(full, range(8), nf, ['uint', 'int', 'set', 'bool', 'bin', 'bytes', 'skip']), [],
                 ('num=%d' % nsim, 2 * nf + 12)))
    return cfgs


def run(run):
    wd = workdir('c19')
    try:
        for label, cs, constraints, sim in configs(run.tier):
            text = tlc.mc_module('MC_BitStream', ['BitStream', 'FiniteSets'], cs, EXTRA)
            cfg = tlc.mc_cfg(cs, invariants=INVS, properties=[] if sim else PROPS, constraints=constraints)
            if sim:
                res = tlc.run(wd, 'MC_BitStream', cfg, text, simulate=sim[0], depth=sim[1], seed=seed() + 19,
                              workers=8)
            else:
                res = tlc.run(wd, 'MC_BitStream', cfg, text)
            tlc.require_ok(res, label)
            if res.violated:
                run.violation(('spec', res.violated, 'tlc', label.split()[0]),
                              'the specification itself violates %s' % res.violated, tlc.error_trace(res))
                continue
            run.add_tlc(res, label, exhaustive=not sim)
            if not res.emitted:
                raise MachineryError('no behaviour emitted by run ' + label)
            seen = set()
            for beh in res.emitted:
                key = json.dumps(beh, sort_keys=True)
                if key in seen:
                    continue
                seen.add(key)
                run.traces += 1
                if any(op['tag'] == 'f' for op in beh['ops']):
                    run.nontriv(key)
                bad = replay_behaviour(beh)
                if bad:
                    run.violation(bad[0], bad[1], beh)
            run.sample({'run': label, 'behaviour': res.emitted[len(res.emitted) // 2]}, limit=4)
    finally:
        rm_workdir(wd)
    run.assumptions = ['field contents are bit patterns; the driver maps a pattern to an integer with int(bits, 2)',
                       'exhaustive runs place one field (or a write followed by an in-place overwrite) between a lead-in of 0..7 bits and a 3-bit sentinel']
    return run.finish('each case is one complete TLC behaviour of BitStream.tla (write phase, pad, read phase, read past end); '
                      'non-trivial = contains at least one field operation; distinct by full behaviour',
                      trusted=['TLC', 'BitStream.tla', 'pattern<->int projection (b2i)'])


def replay(run, path):
    with open(path) as f:
        d = json.load(f)
    bad = replay_behaviour(d['replay'])
    if bad:
        print('VIOLATION property=C19 replay=%s' % path)
        print('  ' + bad[1])
        return 1
    print('replay passes')
    return 0
