"""C02 - encoding produces the canonical FM-94 bit stream for the given values.

spec : FM94.tla in produce form gives, for every behaviour, the data bits field by field (MSB first,
       missing = all ones, strings space padded) and Framing.tla the whole message
GEN  : the behaviour's values are handed to the real Encoder as flat JSON;
       uncompressed -> the encoder's message must be byte-identical to the specification's
       compressed   -> the encoder's octets are parsed by the specification itself (consume form, a
                       second TLC run): every column must reconstruct the given raw values, a missing
                       entry is an all-ones difference and only that, width 0 exactly when all subsets
                       agree, padding zero
TRACE: every sample message is decoded and re-encoded by the real code; the specification parses the
       encoder's octets and must find the decoded values
"""
from .. import tlc, fm94, catalogue, corpus
from ..common import workdir, rm_workdir, seed


def run(run):
    wd = workdir('c02')
    try:
        cat = catalogue.catalogue(run.tier, seed())
        nerr = 0
        for label, group, kw in fm94.batch_plan(run.tier, seed()):
            kw = dict(kw)
            kw['slack'] = 0            # the encoder's own choice of width is judged by the reader, not by equality
            res = fm94.gen_run(wd, 'MC_' + label.replace(' ', '_'), cat[group], **kw)
            if res.violated:
                run.violation(('spec', res.violated, label), 'FM94 invariant %s violated' % res.violated, tlc.error_trace(res))
            run.add_tlc(res, 'FM94 produce ' + label)
            behs = [b for b in res.iter_emitted()]
            # non-vacuity: a (template, flags) combination whose every behaviour dies on the way (no legal difference width for a
            # compressed column, say) leaves nothing to replay - count the templates that never reach the end
            done_tids = {b['tid'] for b in behs}
            silent = [t for k, t in enumerate(cat[group]) if k + 1 not in done_tids]
            run.notes['templates_without_complete_behaviour'] = run.notes.get('templates_without_complete_behaviour', 0) + len(silent)
            if silent:
                run.notes.setdefault('first_templates_without_complete_behaviour', []).append({'run': label, 'ids': silent[0]})
            good = [b for b in behs if not b['err']]
            nerr += len(behs) - len(good)
            results = fm94.replay_all(good, ('encode',))
            pend = []
            for beh, r in zip(good, results):
                run.traces += 1
                run.nontriv(fm94.structure_key(beh))
                if r['bad_enc']:
                    sig, detail = r['bad_enc']
                    run.violation(('walker',) + tuple(sig), detail, {'kind': 'behaviour', 'behaviour': beh})
                elif r['enc_bytes'] is not None:
                    pend.append((beh, r['enc_bytes']))
            if pend:
                res2, parsed = fm94.consume_run(wd, 'MC_reparse_' + label.replace(' ', '_'), [m for _, m in pend],
                                                mversion=kw.get('mversion', 33))
                run.add_tlc(res2, 'FM94 consume form over the encoder output, ' + label)
                for i, (beh, m) in enumerate(pend):
                    bad = fm94.compare_parsed(beh, parsed[i + 1])
                    if bad:
                        run.violation(('walker',) + tuple(bad[0]), bad[1], {'kind': 'behaviour', 'behaviour': beh})
            if good:
                run.sample(fm94.brief(good[len(good) // 3]), limit=4)
        run.notes['behaviours_ending_in_error_not_replayed'] = nerr
        fm94.cross_version_pass(run, wd, ('encode',), seed())
        corpus.validate(run, wd, 'encode')
    finally:
        rm_workdir(wd)
    run.assumptions = [
        'values handed to the encoder are the ones a decoder would produce for the specification bits (exact decimals N/10^scale)',
        'templates stay inside WF (DESIGN 2.6)',
        'compressed output is judged by legality (the specification re-reads it), not by equality with one canonical choice of difference width']
    return run.finish('GEN: one case per TLC behaviour; uncompressed compared byte for byte with the message built by Framing.tla, '
                      'compressed re-read by the specification; non-trivial/distinct = distinct (template, flags, label sequence); '
                      'TRACE: re-encoded corpus messages parsed by the specification',
                      trusted=['TLC', 'FM94.tla / Framing.tla as the reading of FM-94', 'table JSON files as data'])


def replay(run, path):
    import json
    with open(path) as f:
        d = json.load(f)['replay']
    if d.get('kind') == 'behaviour':
        beh = d['behaviour']
        bad, msg = fm94.replay_encode(beh, canonical=not beh['cmp'])
        if bad is None and beh['cmp']:
            wd = workdir('c02r')
            try:
                _, parsed = fm94.consume_run(wd, 'MC_replay', [bytes(msg.serialized_bytes)], mversion=beh.get('mversion', 33))
                bad = fm94.compare_parsed(beh, parsed[1])
            finally:
                rm_workdir(wd)
        print('replay: %r' % (bad,))
        if bad:
            print('VIOLATION property=C02 replay=%s' % path)
            return 1
        return 0
    return corpus.replay(run, d, path)
