"""C08 - template compilation preserves behaviour (decode, encode, save/load).

spec : FM94.tla (what decoding / encoding must give), Compiler.tla (Scoped: the single-pass condition under
       which the property applies; the compiled-template cache as get-or-compile with arbitrary eviction)
MC   : Scoped is evaluated by TLC for every program (catalogue, sampled Table D sequences); the cache model is
       explored over all request histories (SizeBounded, HitOnlyAfterMiss)
GEN  : every FM94 behaviour of every scoped program is decoded and encoded by the real code WITH template
       compilation (cache sizes 0, 1, 2, 8) and compared with the specification - which C01/C02 tie to the
       interpreted path; each program is also compiled, written out as JSON, loaded back and executed;
       request histories from the cache model are replayed on one Decoder / Encoder object per history over
       a pool of messages that share templates across table versions; for unscoped programs the run only
       records that single-pass and walk really differ (non-vacuity of the scope condition)
"""
import json
import os
import random

from .. import tlc, fm94, catalogue, pyb
from ..common import workdir, rm_workdir, seed, MachineryError, REPO


def scoped_flags(wd, name, templates, mversion=33):
    consts = {'Progs': tlc.tla_val([list(t) for t in templates]), 'CacheMax': '0', 'Keys': '{}', 'MaxOps': '0',
              'TableDirs': tlc.tla_val(fm94.table_dirs(mversion)), 'ExtraB': '<<>>', 'ExtraD': '<<>>'}
    text = tlc.mc_module(name, ['Compiler'], consts)
    res = tlc.run(wd, name, tlc.mc_cfg(consts, invariants=['EmitScoped']), text, coverage=False, lazy_emitted=True, timeout=3000)
    tlc.require_ok(res, name)
    flags = {}
    for r in res.iter_emitted():
        flags[tuple(r['ids'])] = r['scoped']
    if len(flags) != len({tuple(t) for t in templates}):
        raise MachineryError('scoped flags: %d of %d programs answered' % (len(flags), len(templates)))
    return res, flags


def zero_length_bitmap(beh):
    """Does some subset define a bitmap through a delayed replication of count 0 (a bitmap of no bits)?"""
    for ents in beh['subsets']:
        labs = [e['lab'] for e in ents]
        for i, lab in enumerate(labs):
            if lab in ('222000', '223000', '224000', '225000', '232000'):
                j = i + 1
                if j < len(labs) and labs[j] == '236000':
                    j += 1
                if j < len(labs) and labs[j] in ('031000', '031001', '031002') and not any(ents[j]['v'][0]['raw']):
                    return True
    return False


def compiled_check(beh, cache_max):
    """Decode and encode one behaviour with template compilation on; compare with the specification."""
    from pybufrkit.decoder import Decoder
    from pybufrkit.encoder import Encoder
    feat = 'zero-length-bitmap' if zero_length_bitmap(beh) else 'cache%d' % cache_max
    bad, msg = fm94.replay_decode(beh, decoder=Decoder(compiled_template_cache_max=cache_max))
    if bad:
        return (('compiled',) + tuple(bad[0][:3]) + (feat,), bad[1])
    bad, m2 = fm94.replay_encode(beh, encoder=Encoder(compiled_template_cache_max=cache_max), canonical=not beh['cmp'])
    if bad:
        return (('compiled',) + tuple(bad[0][:3]) + (feat,), bad[1])
    if beh['cmp']:
        try:
            bad = fm94.compare_decoded(beh, Decoder().process(m2.serialized_bytes), what='decode-of-compiled-encode')
        except Exception as e:
            bad = (('decode-of-compiled-encode', 'exception', type(e).__name__, ''), repr(e))
        if bad:
            return (('compiled',) + tuple(bad[0][:3]) + ('cache%d' % cache_max,), bad[1])
    return None


def loaded_check(beh):
    """compile -> to_dict -> JSON -> load -> execute."""
    from pybufrkit.decoder import Decoder
    from pybufrkit.templatecompiler import TemplateCompiler, loads_compiled_template
    data = bytes(beh['msg'])
    try:
        ref = Decoder().process(data)
        tmpl, tg = ref.build_template(os.path.join(REPO, 'pybufrkit', 'tables'), normalize=1)
        ct = TemplateCompiler().process(tmpl, tg)
        loaded = loads_compiled_template(json.dumps(ct.to_dict()))
        dec = Decoder(compiled_template_cache_max=1)
        dec.compiled_template_manager.get_or_compile = lambda t, g: loaded
        msg = dec.process(data)
    except Exception as e:
        return (('loaded', 'exception', type(e).__name__, ''), 'save/load/execute raised %r' % (e,))
    bad = fm94.compare_decoded(beh, msg, what='loaded')
    if bad:
        return (('loaded',) + tuple(bad[0][1:]), bad[1])
    # the SAME loaded template object executed by an Encoder, then by the Decoder again: a compiled template is data -
    # it must not remember which coder ran it first
    try:
        from pybufrkit.encoder import Encoder
        enc = Encoder(compiled_template_cache_max=1)
        enc.compiled_template_manager.get_or_compile = lambda t, g: loaded
        bad, _ = fm94.replay_encode(beh, encoder=enc, canonical=not beh['cmp'])
        if bad is None:
            bad = fm94.compare_decoded(beh, dec.process(data), what='loaded')
    except Exception as e:
        return (('loaded', 'shared-object', 'exception', type(e).__name__), 'one loaded template run by a Decoder, an Encoder and the Decoder again raised %r' % (e,))
    return (('loaded', 'shared-object') + tuple(bad[0][1:3]), 'one loaded template run by a Decoder, then an Encoder, then the Decoder: ' + bad[1]) if bad else None


def differs_when_compiled(beh):
    from pybufrkit.decoder import Decoder
    try:
        bad, _ = fm94.replay_decode(beh, decoder=Decoder(compiled_template_cache_max=2))
        return bad is not None
    except Exception:
        return True


def _work(args):
    kind, behs, k = args
    out = []
    for b in behs:
        if kind == 'scoped':
            out.append(compiled_check(b, k) or (loaded_check(b) if k == 2 else None))
        else:
            out.append(differs_when_compiled(b))
    return out


table_d_sample = catalogue.table_d_sample


POOL = [([14001, 12001], 13), ([14001, 12001], 33), ([102002, 12001, 2001], 33),
        ([12001, 14001, 223000, 101002, 31031, 101000, 31001, 223255], 13), ([12001, 14001, 223000, 101002, 31031, 101000, 31001, 223255], 33)]


def run(run):
    import multiprocessing as mp
    wd = workdir('c08')
    try:
        thorough = run.tier == 'thorough'
        cat = catalogue.catalogue('thorough', seed())       # the whole catalogue: compilation is per template, the runs are cheap
        r = seed() % 5
        nvac = 0
        groups = [('plain', cat['plain'], dict(subset_counts=(1, 2), seeds=(r,))),
                  ('struct', cat['struct'], dict(subset_counts=(1, 2), seeds=((r + 1) % 5,), fmax=2)),
                  ('bitmap', cat['bitmap'], dict(subset_counts=(1, 2) if thorough else (1,), seeds=((r + 2) % 5,), fmax=2)),
                  ('open', cat['open'], dict(subset_counts=(2,), seeds=((r + 3) % 5,), fmax=2))]
        rq = catalogue.catalogue(run.tier, seed())          # grammar-derived templates of this seed (vf/gen.py)
        groups += [('rnd plain', rq['rnd_plain'], dict(subset_counts=(1, 2), seeds=((r + 4) % 5,))),
                   ('rnd struct', rq['rnd_struct'], dict(subset_counts=(1, 2), seeds=(r,), fmax=2)),
                   ('rnd bitmap', rq['rnd_bitmap'], dict(subset_counts=(1, 2), seeds=((r + 1) % 5,), fmax=2))]
        for mv, seqs in sorted(table_d_sample(run.tier, seed()).items()):
            groups.append(('tableD v%d' % mv, seqs, dict(subset_counts=(1,), seeds=((r + mv) % 5,), fmax=1, mversion=mv, compressions=(False, True))))
        ks = (0, 1, 2, 8)
        for gi, (label, templates, kw) in enumerate(groups):
            res0, flags = scoped_flags(wd, 'MC_scoped_%d' % gi, templates, mversion=kw.get('mversion', 33))
            run.add_tlc(res0, 'Compiler.Scoped over %d programs (%s)' % (len(templates), label))
            res = fm94.gen_run(wd, 'MC_c08_%d' % gi, templates, slack=0, **kw)
            run.add_tlc(res, 'FM94 produce ' + label)
            behs = [b for b in res.iter_emitted() if not b['err']]
            scoped = [b for b in behs if flags[tuple(b['ids'])]]
            unscoped = [b for b in behs if not flags[tuple(b['ids'])]]
            k = ks[(gi + seed()) % len(ks)] if not thorough else None
            jobs = []
            for kk in ([k, 2] if not thorough else ks):
                jobs += [('scoped', scoped[i:i + 30], kk) for i in range(0, len(scoped), 30)]
            jobs += [('unscoped', unscoped[i:i + 30], 2) for i in range(0, len(unscoped), 30)]
            if not jobs:
                continue
            with mp.get_context('fork').Pool(14, initializer=fm94._init_worker) as pool:
                outs = pool.map(_work, jobs)
            for (kind, bs, kk), out in zip(jobs, outs):
                for b, o in zip(bs, out):
                    run.traces += 1
                    if kind == 'scoped':
                        run.nontriv(fm94.structure_key(b))
                        if o:
                            run.violation(o[0], o[1], {'kind': 'behaviour', 'behaviour': b, 'cache_max': kk})
                    elif o:
                        nvac += 1
            run.notes.setdefault('programs_scoped', 0)
            run.notes['programs_scoped'] += sum(1 for v in flags.values() if v)
            run.notes.setdefault('programs_unscoped', 0)
            run.notes['programs_unscoped'] += sum(1 for v in flags.values() if not v)
            if scoped:
                run.sample(fm94.brief(scoped[len(scoped) // 2]), limit=3)
        run.notes['unscoped_behaviours_where_single_pass_differs'] = nvac
        if nvac == 0:
            raise MachineryError('no unscoped program shows a difference: the scope condition would be vacuous')
        # ---------------- cache histories over a pool of messages
        pool_behs = []
        for ids, mv in POOL:
            res = fm94.gen_run(wd, 'MC_pool_%d' % len(pool_behs), [ids], mversion=mv, compressions=(False,), subset_counts=(1,), seeds=((r + len(pool_behs)) % 5,), fmax=2)
            bs = [b for b in res.iter_emitted() if not b['err']]
            pool_behs.append(bs[len(bs) // 2])
            run.add_tlc(res, 'FM94 produce, pool message %r v%d' % (ids, mv))
        hists = set()
        for cmax in (0, 1, 2):
            consts = {'Progs': '<<>>', 'CacheMax': str(cmax), 'Keys': '{1, 2, 3, 4, 5}' if thorough else '{1, 2, 3, 4}', 'MaxOps': '5' if thorough else '4',
                      'TableDirs': tlc.tla_val(fm94.table_dirs(33)), 'ExtraB': '<<>>', 'ExtraD': '<<>>'}
            name = 'MC_cache_%d' % cmax
            text = tlc.mc_module(name, ['Compiler'], consts)
            res = tlc.run(wd, name, tlc.mc_cfg(consts, invariants=['SizeBounded', 'HitOnlyAfterMiss', 'EmitHistory']), text, coverage=False, lazy_emitted=True)
            tlc.require_ok(res, name)
            if res.violated:
                run.violation(('spec', res.violated, 'cache'), 'cache model invariant violated', tlc.error_trace(res))
            run.add_tlc(res, 'Compiler cache model, bound %d' % cmax)
            for h in res.iter_emitted():
                hists.add((cmax, tuple(x['k'] for x in h['hist'])))
        from pybufrkit.decoder import Decoder
        from pybufrkit.encoder import Encoder
        for cmax, keys in sorted(hists):
            dec = Decoder(compiled_template_cache_max=cmax)
            enc = Encoder(compiled_template_cache_max=cmax)
            run.traces += 1
            for step, k in enumerate(keys):
                b = pool_behs[k - 1]
                bad, _ = fm94.replay_decode(b, decoder=dec)
                if not bad:
                    bad, _ = fm94.replay_encode(b, encoder=enc)
                if bad:
                    run.violation(('cache', 'history') + tuple(bad[0][1:3]) + ('bound%d' % cmax,),
                                  'request history %r, step %d (pool message %d): %s' % (keys, step, k, bad[1]),
                                  {'kind': 'history', 'keys': list(keys), 'cache_max': cmax})
                    break
            else:
                run.nontriv(('hist', cmax, keys))
        run.notes['cache_histories_replayed'] = len(hists)
    finally:
        rm_workdir(wd)
    run.assumptions = ['the property applies to programs satisfying Compiler.Scoped; for others only non-vacuity is recorded',
                       'which entry is evicted is left open by the model; every request result is compared with the specification whatever was evicted']
    return run.finish('GEN: every FM94 behaviour of every scoped program through compiled decoder/encoder (cache sizes) and through save/load; cache histories over a message pool',
                      trusted=['TLC', 'FM94.tla', 'Compiler.tla scope condition'])


def replay(run, path):
    with open(path) as f:
        d = json.load(f)['replay']
    if d.get('kind') == 'behaviour':
        bad = compiled_check(d['behaviour'], d.get('cache_max', 2)) or loaded_check(d['behaviour'])
        print('replay: %r' % (bad,))
        if bad:
            print('VIOLATION property=C08 replay=%s' % path)
            return 1
    return 0
