"""C01 - decoding yields exactly the values FM-94 assigns to the bit stream.

spec : FM94.tla (template walker, one action per primitive field / operator / loop step) over
       Tables.tla (tables read as data), Wide.tla, Framing.tla
MC   : TLC explores, for every catalogued template, every delayed-replication factor, every bitmap
       pattern, compressed (every legal difference width up to Slack) and uncompressed, 1..3 subsets,
       rotating value classes; invariants TypeOK, MissingIffAllOnes, LinksPointBack,
       CursorIsSumOfWidths, ProducedBitsMatchCursor, FramesNested
GEN  : every complete behaviour is printed with the whole message assembled by Framing.tla; the real
       Decoder decodes those octets and labels / values (scaled integers) / links are compared
TRACE: the sample corpus is decoded by the real Decoder (hooks on) and, independently, parsed by the
       specification in consume form; results and per-field bit cursors are compared
"""
import os

from .. import tlc, fm94, catalogue, corpus
from ..common import MachineryError, workdir, rm_workdir, seed


def run(run):
    wd = workdir('c01')
    try:
        cat = catalogue.catalogue(run.tier, seed())
        nerr = 0
        for label, group, kw in fm94.batch_plan(run.tier, seed()):
            res = fm94.gen_run(wd, 'MC_' + label.replace(' ', '_'), cat[group], **kw)
            if res.violated:
                run.violation(('spec', res.violated, label), 'FM94 invariant %s violated' % res.violated, tlc.error_trace(res))
            run.add_tlc(res, 'FM94 produce ' + label)
            behs = [b for b in res.iter_emitted()]
            # non-vacuity: a (template, flags) combination whose every behaviour dies on the way (no legal difference width for a
            # compressed column, say) leaves nothing to replay - count the templates that never reach the end
            done_tids = {b['tid'] for b in behs}
            silent = [t for k, t in enumerate(cat[group]) if k + 1 not in done_tids]
            run.notes['templates_without_complete_behaviour'] = run.notes.get('templates_without_complete_behaviour', 0) + len(silent)
            if silent:
                run.notes.setdefault('first_templates_without_complete_behaviour', []).append({'run': label, 'ids': silent[0]})
            good = [b for b in behs if not b['err']]
            nerr += len(behs) - len(good)
            results = fm94.replay_all(good, ('decode',))
            for beh, r in zip(good, results):
                run.traces += 1
                run.nontriv(fm94.structure_key(beh))
                if r['bad_dec']:
                    sig, detail = r['bad_dec']
                    run.violation(('walker',) + tuple(sig), detail, {'kind': 'behaviour', 'behaviour': beh})
            if good:
                run.sample(fm94.brief(good[len(good) // 2]), limit=4)
        run.notes['behaviours_ending_in_error_not_replayed'] = nerr
        fm94.cross_version_pass(run, wd, ('decode',), seed())
        corpus.validate(run, wd, 'decode')
    finally:
        rm_workdir(wd)
    run.assumptions = [
        'templates stay inside WF (DESIGN 2.6): no class-31 numeric inside 201/202/207 brackets, no nested 204, no 204 across marker operators, 221 over plain elements only',
        'float residue: a decoded numeric v is projected to round(v*10^scale) with exact fractions and must be within 2^-40 relative of it',
        'named pybufrkit choices where FM-94 is silent: DnpCountsMembers, BackRefIncludesClass31, StringMissingIsAllOnes']
    return run.finish('GEN: one case per TLC behaviour (template x edition x compression x subsets x factors x bitmap bits x value-class seed x difference width); '
                      'non-trivial/distinct = distinct (template, flags, per-subset label sequence); TRACE: corpus messages parsed by the specification',
                      trusted=['TLC', 'FM94.tla as the reading of FM-94', 'table JSON files as data', 'projection to scaled integers (vf/pyb.py)'])


def replay(run, path):
    import json
    with open(path) as f:
        d = json.load(f)['replay']
    if d.get('kind') == 'behaviour':
        bad, _ = fm94.replay_decode(d['behaviour'])
        print('replay: %r' % (bad,))
        if bad:
            print('VIOLATION property=C01 replay=%s' % path)
            return 1
        return 0
    return corpus.replay(run, d, path)
