"""C14 - templates are built from descriptor lists exactly as FM-94 prescribes.

spec : Tables.tla (Build / Flatten / Expand over the table files read as data), TablesMC.tla (list model,
       Table D / Table B emission, validation of recorded shapes), TableSel.tla (version selection)
MC   : every descriptor list up to length 5 (thorough 6) over an 11-symbol alphabet: for the well-formed
       ones (decided by direct counting, independent of Build) FlattenBuildIsId, OwnershipCount,
       FactorIsClass31, SequencesExpand
GEN  : every well-formed list is built by the real template_from_ids; original_descriptor_ids and the tree
       shape (kinds, spans, counts) must equal the specification's program
TRACE: (a) grammar-derived longer lists (nesting to depth 4, X up to 63): the shape built by the library is
       recorded and validated by TLC against Build; (b) for every Table D entry of the selected table
       versions (thorough: all bundled ones) the library's flat expansion and the Table B attributes of
       every element are compared with the specification's reading of the files; (c) table-version
       selection incl. fall-backs over all identification tuples around the existing directories;
       (d) an undefined descriptor makes decoding fail with UnknownDescriptor
"""
import json
import os
import random

from .. import tlc, fm94, pyb
from ..common import workdir, rm_workdir, seed, REPO, MachineryError

ALPHABET = [12001, 2001, 31001, 101002, 102002, 103001, 101000, 102000, 103000, 201130, 301011, 301021]
TROOT = os.path.join(REPO, 'pybufrkit', 'tables')


def consts(what, mversion=33, local=None, alphabet=ALPHABET, maxlen=5, recorded=None):
    return {'Alphabet': fm94.tla_set(alphabet), 'MaxLen': str(maxlen), 'What': tlc.tla_str(what),
            'Recorded': tlc.tla_val(recorded) if recorded else '<<>>',
            'TableDirs': tlc.tla_val(fm94.table_dirs(mversion, local)), 'ExtraB': '<<>>', 'ExtraD': '<<>>'}


def shape_of(template):
    """Flat program [k, id, span, cnt] of a real BufrTemplate (projection of the implementation's tree)."""
    from pybufrkit.descriptors import (SequenceDescriptor, FixedReplicationDescriptor, DelayedReplicationDescriptor,
                                       OperatorDescriptor)
    out = []

    def walk(members):
        for m in members:
            if isinstance(m, SequenceDescriptor):
                at = len(out)
                out.append(['S', m.id, 0, 0])
                walk(m.members)
                out[at][2] = len(out) - at - 1
            elif isinstance(m, DelayedReplicationDescriptor):
                at = len(out)
                out.append(['D', m.id, 0, 0])
                out.append(['F', m.factor.id, 0, 0])
                walk(m.members)
                out[at][2] = len(out) - at - 2
            elif isinstance(m, FixedReplicationDescriptor):
                at = len(out)
                out.append(['R', m.id, 0, m.n_repeats])
                walk(m.members)
                out[at][2] = len(out) - at - 1
            elif isinstance(m, OperatorDescriptor):
                out.append(['O', m.id, 0, 0])
            else:
                out.append(['E', m.id, 0, 0])
    walk(template.members)
    return out


def table_group(mversion=33, local=None):
    from pybufrkit.tables import TableGroupCacheManager
    if local:
        return TableGroupCacheManager.get_table_group(TROOT, 0, local[0], local[1], mversion, local[2])
    return TableGroupCacheManager.get_table_group(TROOT, 0, 0, 0, mversion, 0)


def gen_wf(rnd, depth, budget):
    """A well-formed descriptor list (grammar-derived): nested replications to `depth`, X up to 63."""
    out = []
    n = rnd.randint(1, 4)
    for _ in range(n):
        if len(out) >= budget:
            break
        r = rnd.random()
        if depth > 0 and r < 0.45:
            body = gen_wf(rnd, depth - 1, min(budget - len(out), 63))
            if not body or len(body) > 63:
                continue
            if rnd.random() < 0.5:
                out += [100000 + 1000 * len(body) + rnd.choice([1, 2, 3, 255])] + body
            else:
                out += [100000 + 1000 * len(body), rnd.choice([31001, 31002, 31000])] + body
        elif r < 0.6:
            out.append(rnd.choice([301011, 301021, 301001, 301023]))
        elif r < 0.7:
            out.append(rnd.choice([201130, 202129, 201000, 207001]))
        else:
            out.append(rnd.choice([12001, 2001, 1001, 1015, 11003]))
    return out


def run(run):
    wd = workdir('c14')
    try:
        thorough = run.tier == 'thorough'
        tg = table_group(33)
        # ---------------- lists: MC + GEN
        cs = consts('lists', maxlen=6 if thorough else 5)
        text = tlc.mc_module('MC_Lists', ['TablesMC'], cs)
        cfg = tlc.mc_cfg(cs, invariants=['FlattenBuildIsId', 'OwnershipCount', 'FactorIsClass31', 'SequencesExpand', 'EmitList'])
        res = tlc.run(wd, 'MC_Lists', cfg, text, coverage=False, lazy_emitted=True, timeout=3000)
        tlc.require_ok(res, 'TablesMC lists')
        if res.violated:
            run.violation(('spec', res.violated, 'lists'), 'TablesMC invariant violated', tlc.error_trace(res))
        run.add_tlc(res, 'TablesMC: all lists up to length %s over %d descriptors' % (cs['MaxLen'], len(ALPHABET)))
        nwf = 0
        for rec in res.iter_emitted():
            nwf += 1
            run.traces += 1
            ids = rec['ids']
            want = [[p['k'], p['id'], p['span'], p['cnt']] for p in rec['prog']]
            try:
                t = tg.template_from_ids(*ids)
                got = shape_of(t)
                back = list(t.original_descriptor_ids)
            except Exception as e:
                run.violation(('build', 'exception', type(e).__name__, ''), 'template_from_ids%r raised %r' % (tuple(ids), e), {'kind': 'list', 'ids': ids})
                continue
            if any(p[0] in 'RD' for p in want):
                run.nontriv(tuple(ids))
            if got != want:
                k = next((i for i in range(min(len(got), len(want))) if got[i] != want[i]), min(len(got), len(want)))
                run.violation(('build', 'shape', 'differs', 'delayed' if any(p[0] == 'D' for p in want) else 'fixed'),
                              'list %r: library builds %r at position %d, specification %r' % (ids, got[k] if k < len(got) else None, k, want[k] if k < len(want) else None),
                              {'kind': 'list', 'ids': ids, 'spec': want})
            elif back != ids:
                run.violation(('build', 'flatten', 'differs', ''), 'list %r flattens back to %r' % (ids, back), {'kind': 'list', 'ids': ids})
        run.notes['well_formed_lists'] = nwf
        # ---------------- longer lists: recorded shapes validated by TLC
        rnd = random.Random(seed() * 31 + 14)
        recorded = []
        seen = set()
        target = 400 if not thorough else 2500
        tries = 0
        while len(recorded) < target and tries < target * 20:
            tries += 1
            ids = gen_wf(rnd, 4 if tries % 3 else 2, 40)
            if not ids or tuple(ids) in seen:
                continue
            seen.add(tuple(ids))
            try:
                t = tg.template_from_ids(*ids)
                recorded.append({'ids': ids, 'shape': shape_of(t)})
            except Exception as e:
                run.violation(('build', 'exception', type(e).__name__, 'long'), 'template_from_ids%r raised %r' % (tuple(ids), e), {'kind': 'list', 'ids': ids})
        cs = consts('validate', recorded=recorded)
        text = tlc.mc_module('MC_Validate', ['TablesMC'], cs)
        cfg = tlc.mc_cfg(cs, invariants=['EmitVerdict'])
        res = tlc.run(wd, 'MC_Validate', cfg, text, coverage=False, lazy_emitted=True, timeout=3000)
        tlc.require_ok(res, 'TablesMC validate')
        run.add_tlc(res, 'TablesMC: %d recorded template shapes validated against Build' % len(recorded), exhaustive=False)
        nv = 0
        for v in res.iter_emitted():
            nv += 1
            run.traces += 1
            ids = recorded[v['i'] - 1]['ids']
            run.nontriv(tuple(ids))
            if not v['wf']:
                raise MachineryError('generator produced an ill-formed list %r' % ids)
            if not v['same'] or not v['flatten']:
                run.violation(('build', 'shape', 'trace-rejected', 'long'), 'recorded shape of %r is not what Build gives' % ids,
                              {'kind': 'list', 'ids': ids, 'recorded': recorded[v['i'] - 1]['shape']})
        if nv != len(recorded):
            raise MachineryError('validation returned %d verdicts for %d cases' % (nv, len(recorded)))
        run.sample({'recorded_list': recorded[1]['ids'], 'shape': recorded[1]['shape'][:12]})
        # ---------------- Table D / B of bundled versions
        wmo = sorted(int(v) for v in os.listdir(os.path.join(TROOT, '0', '0_0')))
        locs = [(98, 0, 1), (98, 0, 101), (98, 0, 2), (98, 0, 3)]
        if thorough:
            versions = [(v, None) for v in wmo] + [(13, l) for l in locs]
        else:
            rs = random.Random(seed())
            versions = [(33, None), (13, locs[seed() % 2]), (13, None)] + [(v, None) for v in rs.sample([v for v in wmo if v not in (13, 33)], 2)]
        # a group WITH local tables is built before the plain group of the same master version (and, thorough, after it
        # as well): what one group loads must not show up in another
        if thorough:
            versions = [(13, locs[0])] + versions
        from pybufrkit.descriptors import flat_member_ids
        nseq = nel = 0
        spec_keys, groups, spec_flat = {}, {}, {}
        for mv, loc in versions:
            g = table_group(mv, loc)
            groups[(mv, loc)] = g
            for what, inv in (('tabled', 'EmitTableD'), ('tableb', 'EmitTableB')):
                cs = consts(what, mversion=mv, local=loc)
                name = 'MC_%s_%d_%s' % (what, mv, 'l%d' % loc[2] if loc else 'wmo')
                text = tlc.mc_module(name, ['TablesMC'], cs)
                res = tlc.run(wd, name, tlc.mc_cfg(cs, invariants=[inv]), text, coverage=False, lazy_emitted=True, timeout=3000)
                tlc.require_ok(res, name)
                run.add_tlc(res, 'Table %s of version %d%s read by the specification' % (what[-1].upper(), mv, ' + local %r' % (loc,) if loc else ''))
                for rec in res.iter_emitted():
                    run.traces += 1
                    spec_keys.setdefault((mv, loc), set()).add(rec['seq'] if what == 'tabled' else rec['id'])
                    if what == 'tabled':
                        nseq += 1
                        if rec['defined']:
                            spec_flat.setdefault(rec['seq'], {})[(mv, loc)] = rec['flat']
                        d = g.lookup(rec['seq'])
                        try:
                            got = flat_member_ids(d)
                        except Exception as e:
                            got = 'exception %s' % type(e).__name__
                        if rec['defined'] and got != rec['flat']:
                            run.violation(('tabled', 'expansion', 'differs', 'v%d' % mv), 'sequence %06d of version %d: library %r, table file %r' % (
                                rec['seq'], mv, got if isinstance(got, str) else got[:30], rec['flat'][:30]), {'kind': 'seq', 'seq': rec['seq'], 'version': mv, 'local': loc})
                        elif rec['defined']:
                            run.nontriv(('D', mv, loc, rec['seq']))
                    else:
                        nel += 1
                        d = g.lookup(rec['id'])
                        mine = (d.unit, d.scale, d.nbits)
                        spec = (rec['unit'], rec['scale'], rec['width'])
                        ok = mine == spec and (abs(d.refval) >= 2 ** 31 or d.refval == rec['ref'])
                        if not ok:
                            run.violation(('tableb', 'attributes', 'differ', 'v%d' % mv), 'element %06d of version %d: library %r ref %r, table file %r ref %r' % (
                                rec['id'], mv, mine, d.refval, spec, rec['ref']), {'kind': 'elem', 'id': rec['id'], 'version': mv, 'local': loc})
        # nothing else is defined: every key that ANY of the compared table selections knows is defined in a group exactly
        # when the files of that group's own selection define it (checked after all groups have been built)
        universe = set().union(*spec_keys.values()) if spec_keys else set()
        nprobe = 0
        for (mv, loc), g in groups.items():
            for k in sorted(universe):
                nprobe += 1
                lib_defined = not type(g.lookup(k)).__name__.startswith('Undefined')
                if lib_defined != (k in spec_keys[(mv, loc)]):
                    run.violation(('tables', 'key-set', 'extra-entry' if lib_defined else 'missing-entry', 'D' if k >= 300000 else 'B'),
                                  'descriptor %06d is %s in the group of version %d%s although its table files say otherwise' % (
                                      k, 'defined' if lib_defined else 'undefined', mv, ' + local %r' % (loc,) if loc else ''),
                                  {'kind': 'keyset', 'id': k, 'version': mv, 'local': loc, 'built_in_order': [list(map(str, v)) for v in versions]})
                    break
        run.traces += nprobe
        run.notes['definedness_probes'] = nprobe
        # the same expansions in a process that has read table-definition messages from a stream first (the prepbufr sample): the
        # standard sequences, which those definitions do not mention, still expand as the files of the SELECTED version say; the
        # sequences whose expansion differs between the compared selections are asked for under each of them in turn
        differing = sorted(k for k, v in spec_flat.items() if len(v) > 1 and len({tuple(x) for x in v.values()}) > 1)
        same = sorted(k for k, v in spec_flat.items() if len(v) > 1 and len({tuple(x) for x in v.values()}) == 1)
        pick = differing[seed() % 3::3][:40 if not thorough else 400] + same[seed() % 7::7][:10]
        queries = [{'mv': mv, 'local': list(loc) if loc else None, 'id': k} for k in pick for (mv, loc) in sorted(spec_flat[k], key=lambda x: (x[0], x[1] or ()))]
        queries += queries[::-1][:len(queries) // 2]
        if queries:
            import subprocess
            from ..common import PY, VERIF
            with open(os.path.join(REPO, 'tests', 'data', 'prepbufr.bufr'), 'rb') as f:
                defs = list(f.read())
            jf, of = os.path.join(wd, 'c14w.job.json'), os.path.join(wd, 'c14w.out.json')
            with open(jf, 'w') as f:
                json.dump({'definitions': defs, 'root': TROOT, 'queries': queries, 'stop_after': 3}, f)
            env = dict(os.environ, PYTHONPATH=REPO + os.pathsep + VERIF)
            p = subprocess.run([PY, '-m', 'vf.c14worker', jf, of], cwd=VERIF, env=env, stdout=subprocess.PIPE, stderr=subprocess.PIPE, timeout=900)
            if p.returncode != 0 or not os.path.exists(of):
                raise MachineryError('c14worker failed: %s' % p.stderr.decode()[-400:])
            with open(of) as f:
                got = json.load(f)
            for q, g_ in zip(queries, got):
                run.traces += 1
                want = spec_flat[q['id']][(q['mv'], tuple(q['local']) if q['local'] else None)]
                if g_ != want:
                    run.violation(('tabled', 'expansion', 'after-definitions', 'v%d' % q['mv']),
                                  'after table-definition messages were read in the process: sequence %06d under version %d expands to %r, its table file says %r' % (
                                      q['id'], q['mv'], g_ if isinstance(g_, str) else g_[:20], want[:20]),
                                  {'kind': 'seq-after-definitions', 'query': q, 'order': [[x['mv'], x['id']] for x in queries[:30]]})
                    break
                run.nontriv(('after-defs', q['mv'], str(q['local']), q['id']))
            run.notes['expansions_after_in_stream_definitions'] = len(queries)
            run.notes['sequences_whose_expansion_differs_between_selections'] = len(differing)
        run.notes['table_d_sequences_compared'] = nseq
        run.notes['table_b_elements_compared'] = nel
        # ---------------- version selection
        dirs = []
        masters = sorted(int(m) for m in os.listdir(TROOT) if m.isdigit())
        for m in masters:
            for cs_ in sorted(os.listdir(os.path.join(TROOT, str(m)))):
                for v in sorted(os.listdir(os.path.join(TROOT, str(m), cs_))):
                    if v.isdigit():
                        dirs.append([m, cs_, int(v)])
        qs = []
        vs = sorted({0, 1, 5, 6, 7, 13, 33, 34, 41, 42, 200})
        for m in (0, 1):
            for (c, s_) in ((0, 0), (98, 0), (98, 7), (99, 0), (7, 0), (7, 3)):
                for v in vs:
                    for l in (0, 1, 2, 3, 4, 101, 102):
                        qs.append({'m': m, 'c': c, 's': s_, 'v': v, 'l': l})
        sc = {'Masters': fm94.tla_set(masters), 'Dirs': '{' + ', '.join(tlc.tla_val(d) for d in dirs) + '}',
              'Qs': '{' + ', '.join(tlc.tla_val(q) for q in qs) + '}'}
        text = tlc.mc_module('MC_Sel', ['TableSel'], sc)
        res = tlc.run(wd, 'MC_Sel', tlc.mc_cfg(sc, invariants=['SelectedExists', 'ExactHitIsKept', 'NoLocalWhenZero', 'Emit']), text, coverage=False, lazy_emitted=True)
        tlc.require_ok(res, 'TableSel')
        if res.violated:
            run.violation(('spec', res.violated, 'TableSel'), 'TableSel invariant violated', tlc.error_trace(res))
        run.add_tlc(res, 'TableSel: %d identification tuples over %d directories' % (len(qs), len(dirs)))
        from pybufrkit.tables import normalize_tables_sn
        import logging
        logging.disable(logging.CRITICAL)
        sel_recs = list(res.iter_emitted())
        for rec in sel_recs:
            q, n = rec['q'], rec['n']
            run.traces += 1
            w, l = normalize_tables_sn(TROOT, q['m'], q['c'], q['s'], q['v'] or 33, q['l'])
            got = {'wmo': [int(w[0]), w[1], int(w[2])], 'loc': [int(l[0]), l[1], int(l[2])] if l else []}
            if got != n:
                run.violation(('select', 'tables', 'differ', 'local' if got['wmo'] == n['wmo'] else 'wmo'),
                              'identification %r selects %r, documented rule %r' % (q, got, n), {'kind': 'select', 'q': q})
            elif n['wmo'][2] != q['v'] or (q['l'] and n['loc'] and n['loc'][1] != '%d_%d' % (q['c'], q['s'])):
                run.nontriv(('sel', q['m'], q['c'], q['s'], q['v'], q['l']))
        # the selection is made per tables root: a second root that holds only two WMO versions is asked first (through
        # get_table_group, the entry point coders use), then the bundled root - the same identification selects different tables
        from pybufrkit.tables import TableGroupCacheManager
        root2 = os.path.join(wd, 'troot2')
        os.makedirs(os.path.join(root2, '0', '0_0'))
        for v in (25, 33):
            os.symlink(os.path.join(TROOT, '0', '0_0', str(v)), os.path.join(root2, '0', '0_0', str(v)))
        dirs2 = [[0, '0_0', 25], [0, '0_0', 33]]
        qs2 = [{'m': 0, 'c': c, 's': 0, 'v': v, 'l': l} for c in (0, 98) for v in (13, 25, 33, 41) for l in (0, 1)]
        sc2 = {'Masters': fm94.tla_set([0]), 'Dirs': '{' + ', '.join(tlc.tla_val(d) for d in dirs2) + '}', 'Qs': '{' + ', '.join(tlc.tla_val(q) for q in qs2) + '}'}
        res2 = tlc.run(wd, 'MC_Sel2', tlc.mc_cfg(sc2, invariants=['SelectedExists', 'ExactHitIsKept', 'NoLocalWhenZero', 'Emit']), tlc.mc_module('MC_Sel2', ['TableSel'], sc2),
                       coverage=False, lazy_emitted=True)
        tlc.require_ok(res2, 'TableSel (second root)')
        run.add_tlc(res2, 'TableSel: %d identification tuples over a tables root with two versions' % len(qs2))
        want2 = {json.dumps(r['q'], sort_keys=True): r['n'] for r in res2.iter_emitted()}
        want1 = {json.dumps(r['q'], sort_keys=True): r['n'] for r in sel_recs}
        for root, want, tag in ((root2, want2, 'second-root'), (TROOT, want1, 'bundled-root-after-second')):
            for q in qs2:
                k = json.dumps(q, sort_keys=True)
                if k not in want:
                    continue
                run.traces += 1
                try:
                    g = TableGroupCacheManager.get_table_group(root, q['m'], q['c'], q['s'], q['v'], q['l'])
                    w, l = g.key.wmo_tables_sn, g.key.local_tables_sn
                    got = {'wmo': [int(w[0]), w[1], int(w[2])], 'loc': [int(l[0]), l[1], int(l[2])] if l else []}
                except Exception as e:
                    got = 'exception %s' % type(e).__name__
                if got != want[k]:
                    run.violation(('select', 'tables', 'differ', tag), 'identification %r under %s selects %r, documented rule %r' % (q, tag, got, want[k]),
                                  {'kind': 'select-root', 'q': q, 'root': tag})
                    break
                run.nontriv(('sel2', tag, k))
        logging.disable(logging.NOTSET)
        # ---------------- an undefined descriptor is an error, not skipped
        from pybufrkit.decoder import Decoder
        from pybufrkit.encoder import Encoder
        from pybufrkit.errors import UnknownDescriptor
        def desc_octets(ids):
            return b''.join(bytes([(i // 100000) * 64 + (i // 1000) % 100, i % 1000]) for i in ids)
        # (template, values, position, undefined descriptor put there): plain, after the data-not-present operator 221 (a
        # descriptor that carries no data still has to be a defined one), inside fixed and delayed replications
        undef_cases = [([1001, 12001, 2001], [1, 250.1, 1], 0, 63250), ([1001, 12001, 2001], [1, 250.1, 1], 1, 63250),
                       ([1001, 12001, 2001], [1, 250.1, 1], 2, 363250), ([1001, 12001, 2001], [1, 250.1, 1], 1, 363250),
                       ([1001, 221001, 12001, 2001], [1, 1], 2, 12250), ([1001, 221002, 12001, 11003, 2001], [1, 1], 3, 11250),
                       ([1001, 221002, 12001, 11003, 2001], [1, 1], 2, 63250),
                       ([101002, 12001, 2001], [250.1, 251.1, 1], 1, 12250), ([101000, 31001, 12001], [1, 250.1], 2, 12250),
                       ([102000, 31001, 12001, 301011], [1, 250.1, 2020, 1, 2], 3, 363250)]
        for ids, vals, pos, und in undef_cases:
            good = Encoder().process(pyb.flat_json(4, ids, 1, False, [vals])).serialized_bytes
            at = good.find(desc_octets(ids)) + 2 * pos
            repl = desc_octets([und])
            bad = good[:at] + repl + good[at + 2:]
            run.traces += 1
            try:
                Decoder().process(bad)
                run.violation(('undefined', 'decoded', 'skipped', 'after-221' if 221000 < ids[0] < 222000 or 221000 < ids[1] < 222000 else 'pos%d' % pos),
                              'a message with the undefined descriptor %06d in %r decodes' % (und, ids), {'kind': 'undef', 'msg': list(bad)})
            except UnknownDescriptor:
                pass
            except Exception as e:
                run.violation(('undefined', 'error-type', type(e).__name__, 'pos%d' % pos), 'undefined descriptor raises %r' % (e,), {'kind': 'undef', 'msg': list(bad)})
    finally:
        rm_workdir(wd)
    run.assumptions = ['the table files are data; references with |value| >= 2^31 are not compared (TLC integers)',
                       'the fall-back rule is the documented one (TableSel.tla); the default version directory is taken on trust']
    return run.finish('lists: every list up to the bound (non-trivial = well-formed with a replication); recorded shapes of longer lists; every Table D / B entry of the selected versions; version selection tuples',
                      trusted=['TLC', 'Tables.tla Build as the reading of FM-94 94.5.4', 'table JSON files'])


def replay(run, path):
    with open(path) as f:
        d = json.load(f)['replay']
    if d.get('kind') == 'list':
        t = table_group(33).template_from_ids(*d['ids'])
        got = shape_of(t)
        print('shape %r' % got)
        if 'spec' in d and got != d['spec']:
            print('VIOLATION property=C14 replay=%s' % path)
            return 1
    return 0
