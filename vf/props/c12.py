"""C12 - damage is detected, reported as a library error, and isolated to one message.

spec : Stream.tla with faults (overwritten stop signature, undefined element / sequence descriptor in
       section 3, section length decreased / increased in sections 1, 3, 4 - total length intact) applied
       to every subset of the messages of a stream, and truncation of a single message at every octet
MC   : ContinueSkipsOnlyDamaged, NoContinueDeliversPrefixThenError, NoPrefixDecodes, DecoyNeverStartsMessage
       over streams x fault subsets x {full, metadata-only} x {continue, stop} x {filter, none}.
       Which damage a mode can see is part of the specification: metadata-only decoding reads sections 0-3
       and skips the declared extent of section 4 (InfoOK), so a damaged stop signature or an undefined
       descriptor is delivered there with the declared extent (C17 demands exactly that).
GEN  : every terminal state is run through generate_bufr_message (hooks on): delivered bytes, end status,
       exception TYPE (must be PyBufrKitError or a subclass) and every loop iteration are compared;
       every proper prefix of every pool message and every message followed by arbitrary bytes goes through
       Decoder.process; a sample of damaged streams goes through the command line in a subprocess: no
       traceback, non-zero... (the exit code is not part of the property) and the undamaged messages
       are still printed under --continue-on-error
"""
import json
import os

from .. import stream, tlc
from ..common import workdir, rm_workdir, seed, MachineryError

ALLF = ('stop', 'stopff', 'undef_elem', 'undef_elem2', 'undef_seq', 'shrink1', 'grow1', 'shrink3', 'grow3', 'shrink4', 'grow4')


def prefixes_and_suffixes(run, cases):
    """Decoder.process on every proper prefix (incl. those shorter than the signature) and on message + junk."""
    from pybufrkit.decoder import Decoder
    from pybufrkit.errors import PyBufrKitError
    from .. import pyb
    msgs = {}
    for c in cases:
        segs = [s for s in c['layout'] if s['kind'] == 'msg']
        if len(segs) == 1 and segs[0]['fault'] == 'none' and len(c['layout']) == 3 and c['layout'][0]['k'] == 1 and c['layout'][2]['k'] == 1:
            msgs[segs[0]['k']] = bytes(c['stream'])
    for k, m in sorted(msgs.items()):
        ref = Decoder().process(m)
        refv = [pyb.values_of(ref, i) for i in range(ref.n_subsets.value)]
        for p in range(0, len(m)):
            run.traces += 1
            try:
                Decoder().process(m[:p])
            except PyBufrKitError:
                continue
            except Exception as e:
                run.violation(('truncate', 'exception-type', type(e).__name__, 'p<sec4' if p < len(m) - 4 else 'p>=sec4'),
                              'pool message %d cut to %d of %d octets raises %r' % (k, p, len(m), e), {'kind': 'prefix', 'k': k, 'cut': p, 'msg': list(m)})
                continue
            run.violation(('truncate', 'decoded', 'prefix', ''), 'pool message %d cut to %d of %d octets decodes' % (k, p, len(m)),
                          {'kind': 'prefix', 'k': k, 'cut': p, 'msg': list(m)})
        for junk in (b'7777', b'BUFR', b'\x00\xff' * 9, m[:20]):
            run.traces += 1
            try:
                d = Decoder().process(m + junk)
                same = d.serialized_bytes == m and [pyb.values_of(d, i) for i in range(d.n_subsets.value)] == refv
            except Exception as e:
                same = False
            if not same:
                run.violation(('trailing', 'influence', 'differs', ''), 'bytes after pool message %d change its decoding' % k,
                              {'kind': 'trailing', 'k': k, 'junk': list(junk), 'msg': list(m)})
    return len(msgs)


def cli_cases(run, wd, cases):
    n = 0
    for c in cases:
        d = os.path.join(wd, 'cli%d' % n)
        os.makedirs(d)
        n += 1
        fn = os.path.join(d, 's.bufr')
        with open(fn, 'wb') as f:
            f.write(bytes(c['stream']))
        args = ['decode', '-m'] + (['--continue-on-error'] if c['mode']['cont'] else []) + [fn]
        rc, out, err = stream.cli(args)
        run.traces += 1
        if 'Traceback' in err or 'Traceback' in out:
            last = [l for l in err.strip().splitlines() if l.strip()][-1:] or ['']
            run.violation(('cli', 'traceback', last[0].split(':')[0].strip()[:40], ','.join(sorted(f for f in c['faults'] if f != 'none'))),
                          'command line printed a traceback: %s' % err[-400:], {'kind': 'stream', 'case': c})
            continue
        shown = out.count('<<<<<< section 0 >>>>>>')
        if shown != len(c['yielded']):
            run.violation(('cli', 'messages-shown', 'differ', ''), 'decode -m printed %d messages, specification delivers %d (stderr %r)' % (
                shown, len(c['yielded']), err[-200:]), {'kind': 'stream', 'case': c})
    return n


def run(run):
    wd = workdir('c12')
    try:
        thorough = run.tier == 'thorough'
        r = seed()
        rot = lambda xs, k: tuple(xs[(r + i) % len(xs)] for i in range(k))
        faults_q = ('stop', 'stopff', 'undef_elem', 'undef_elem2') + rot(ALLF[4:], 3)
        plans = [('n<=2, %s' % ('all faults' if thorough else 'faults ' + ','.join(faults_q)),
                  dict(maxmsgs=2, pool=(1, 2, 3, 4, 5), seps=(1, 2, 3) if thorough else (1, 2 + r % 2), faults=ALLF if thorough else faults_q, cuts=True)),
                 ('n<=3 uniform separators', dict(maxmsgs=3, pool=(1, 3, 4) if thorough else (1, 4), seps=(1, 3) if thorough else (3,),
                                                 faults=ALLF if thorough else ('stopff', 'undef_seq', 'shrink4', 'grow1'), uniform=True))]
        # the same scanner with expected values not enforced (ignore_value_expectation): only the stop signature is waived
        plans.append(('n<=2, values not enforced', dict(maxmsgs=2, pool=(1, 4), seps=(1,), faults=('stop', 'stopff', 'undef_elem', 'shrink4', 'grow3'), modes=stream.IVE_MODES)))
        allcases = []
        for i, (label, kw) in enumerate(plans):
            res = stream.tlc_run(wd, 'MC_c12_%d' % i, **kw)
            if res.violated:
                run.violation(('spec', res.violated, label), 'Stream invariant violated', tlc.error_trace(res))
            run.add_tlc(res, 'Stream (faults) ' + label)
            cases = list(res.iter_emitted())
            damaged = [c for c in cases if any(f != 'none' for f in c['faults'])]
            stream.replay_cases(run, damaged, 'faults')
            allcases += cases
            if damaged:
                run.sample(stream.brief(damaged[len(damaged) // 3]), limit=3)
        # one Decoder for a series of scans: scans with expected values not enforced, metadata-only scans and failing scans take turns
        # with ordinary ones - an option belongs to its call, a failure leaves nothing behind
        dam = [c for c in allcases if any(f != 'none' for f in c['faults'])]
        ive = [c for c in dam if c['mode'].get('ive')]
        rest = [c for c in dam if not c['mode'].get('ive')]
        step = max(1, len(rest) // (3000 if thorough else 600))
        rest = rest[r % step::step]
        mixed = []
        for k, c in enumerate(rest):
            if ive and k % 2 == 0:
                mixed.append(ive[(k // 2) % len(ive)])
            mixed.append(c)
        stream.replay_cases_shared(run, mixed, 'faults')
        run.notes['scans_through_shared_decoders'] = len(mixed)
        # the damaged-descriptor cases once more in processes that have read in-stream table definitions before
        und = [c for c in dam if any(f.startswith('undef') for f in c['faults']) and not c['mode'].get('ive')]
        step = max(1, len(und) // (4000 if thorough else 800))
        und = und[r % step::step]
        stream.replay_cases_after_definitions(run, und, 'faults')
        run.notes['scans_after_in_stream_definitions'] = len(und)
        npool = prefixes_and_suffixes(run, allcases)
        run.notes['pool_messages_truncated_at_every_octet'] = npool
        damaged = [c for c in allcases if any(f not in ('none', 'cut') for f in c['faults']) and not c['mode']['info'] and not c['mode']['filt']
                   and len([s for s in c['layout'] if s['kind'] == 'msg']) >= 2]
        step = max(1, len(damaged) // (40 if thorough else 10))
        run.notes['cli_cases'] = cli_cases(run, wd, damaged[r % step::step][:40 if thorough else 10])
        import collections
        run.notes['fault_kinds_seen'] = dict(collections.Counter(f for c in allcases for f in c['faults'] if f != 'none'))
        # the command line (Cmd.tla): decode with every combination of -m / --continue-on-error / --filter and formats over files with
        # a damaged message: what is printed before the failure, what is skipped, and the error on stderr without a traceback
        from .. import cmd
        cmd.run_commands(run, wd, ['decode'], seed())
    finally:
        rm_workdir(wd)
    run.assumptions = ['the total length of a damaged message is intact (the property says so)',
                       'metadata-only scanning cannot see a damaged stop signature or an undefined descriptor: such messages are delivered with their declared extent',
                       'a message whose payload contains start signatures is not combined with length damage under metadata-only scanning (what a re-scan of its interior finds is not a message)']
    return run.finish('GEN: one case per (stream layout with faults, mode); truncation of every pool message at every octet; CLI on a sample',
                      trusted=['TLC', 'Stream.tla incl. the InfoOK bounded parse', 'Framing.tla'])


def replay(run, path):
    with open(path) as f:
        d = json.load(f)['replay']
    if d.get('kind') == 'stream':
        bad = stream.run_case(d['case'])
        print('replay: %r' % (bad,))
        if bad:
            print('VIOLATION property=C12 replay=%s' % path)
            return 1
        return 0
    from pybufrkit.decoder import Decoder
    from pybufrkit.errors import PyBufrKitError
    m = bytes(d['msg'])
    if d['kind'] == 'prefix':
        try:
            Decoder().process(m[:d['cut']])
            print('prefix decodes')
        except PyBufrKitError:
            print('library error (fine)')
            return 0
        except Exception as e:
            print('raises %r' % (e,))
        print('VIOLATION property=C12 replay=%s' % path)
        return 1
    return 0
