"""C15 - the path-expression parser accepts exactly the documented grammar.

spec : PathParser.tla - (i) the documented grammar as a recursive-descent recogniser,
       (ii) a character automaton with the nine states of NodePathParser
MC   : every string up to length L over a 12-symbol alphabet (one TLC state per string);
       invariants SMAgreesWithGrammar, PrintParseFixpoint at every prefix
GEN  : TLC prints (string, verdict, parsed value) for every state; the driver calls the real
       NodePathParser on each string and compares verdict / exception type / value / str() round trip
TRACE: outcomes of the real parser on grammar-derived long expressions and their single-character
       mutations are recorded and validated by TLC against Trace_PathParser.tla
"""
import json
import os
import random

from .. import tlc
from ..common import MachineryError, workdir, rm_workdir, seed

SIGMA = ['@', '[', ']', ':', '/', '.', '>', '-', '0', '1', 'A', ' ']


def proj_slice(s):
    if isinstance(s, slice):
        o = lambda x: [] if x is None else [x]
        return {'kind': 'slice', 'start': o(s.start), 'stop': o(s.stop), 'step': o(s.step)}
    return {'kind': 'int', 'start': [s], 'stop': [], 'step': []}


def observe(text, parser=None):
    """Outcome of the real parser in the specification's vocabulary."""
    from pybufrkit.dataquery import NodePathParser
    try:
        p = (parser or NodePathParser()).parse(text)
    except Exception as e:
        return {'ok': False, 'err': type(e).__name__, 'subset': proj_slice(slice(None)), 'comps': [], 'printed': []}
    try:
        printed = str(p)
    except Exception as e:
        return {'ok': False, 'err': 'str:' + type(e).__name__, 'subset': proj_slice(slice(None)), 'comps': [], 'printed': []}
    return {'ok': True, 'err': '',
            'subset': proj_slice(p.subset_slice) if p.subset_slice is not None else {'kind': 'none', 'start': [], 'stop': [], 'step': []},
            'comps': [{'sep': c.separator, 'id': list(c.id), 'slice': proj_slice(c.slice)} for c in p.components],
            'printed': list(printed)}


def classify(text, spec, obs):
    """Compare one specification verdict with the implementation's outcome."""
    feat = 'len=%d' % len(text)
    if not spec['ok']:
        if obs['ok']:
            # which part of the input was dropped / tolerated
            stripped = text.replace(' ', '')
            if not obs['comps']:
                kind = 'no-component'
            elif stripped and stripped[-1] in '[:@' or stripped.count('[') != stripped.count(']'):
                kind = 'pending-bracket'
            elif any(ch not in '0123456789ABCDEFGHIJKLMNOPQRSTUVWXYZ' for c in obs['comps'] for ch in c['id']):
                kind = 'id-charset'
            else:
                kind = 'other'
            return ('parse', 'accepted-invalid', kind), 'accepted %r as %r' % (text, obs)
        if obs['err'] != 'PathExprParsingError':
            return ('parse', 'error-type', obs['err']), '%r raised %s' % (text, obs['err'])
        return None
    if not obs['ok']:
        return ('parse', 'rejected-valid', obs['err']), '%r rejected with %s, specification accepts it as %r' % (text, obs['err'], spec)
    if obs['subset'] != spec['subset']:
        return ('parse', 'subset-slice', ''), '%r: subset %r, specification %r' % (text, obs['subset'], spec['subset'])
    if obs['comps'] != spec['comps']:
        return ('parse', 'components', ''), '%r: components %r, specification %r' % (text, obs['comps'], spec['comps'])
    again = observe(''.join(obs['printed']))
    if not again['ok'] or again['subset'] != obs['subset'] or again['comps'] != obs['comps']:
        return ('print', 'round-trip', ''), '%r prints as %r which parses to %r' % (text, ''.join(obs['printed']), again)
    return None


# ---- grammar-derived long expressions and their mutations (for the TRACE direction) ----
IDCH = '0123456789ABCDEFGHIJKLMNOPQRSTUVWXYZ'
MUT = list('@[]:/.>-+0123456789ABCDEFGHIJKLMNOPQRSTUVWXYZabcxyz$ ') + ['\t']


def gen_int(rnd):
    return str(rnd.choice([0, 1, 2, 7, 10, 99, 123456, -1, -2, -10, -255]))


def gen_slice(rnd):
    k = rnd.randint(1, 3)
    if k == 1:
        inner = gen_int(rnd)
    else:
        inner = ':'.join(gen_int(rnd) if rnd.random() < 0.6 else '' for _ in range(k))
    sp = lambda: ' ' * rnd.choice([0, 0, 0, 1])
    return '[' + sp() + inner + sp() + ']'


def gen_expr(rnd):
    sp = lambda: ' ' * rnd.choice([0, 0, 1, 2])
    out = ''
    sel = rnd.random() < 0.5
    if sel:
        out += '@' + sp() + gen_slice(rnd) + sp()
    n = rnd.randint(1, 6)
    for i in range(n):
        if i == 0:
            sep = rnd.choice(['/', '>'] if sel else ['/', '>', ''])
        else:
            sep = rnd.choice(['/', '.', '>'])
        ident = ''.join(rnd.choice(IDCH) for _ in range(rnd.choice([6, 6, 6, 1, 3])))
        out += sep + sp() + ident + sp()
        if rnd.random() < 0.5:
            out += gen_slice(rnd) + sp()
    return out


def mutate(rnd, s):
    if not s:
        return rnd.choice(MUT)
    i = rnd.randrange(len(s))
    k = rnd.choice(['ins', 'del', 'rep'])
    if k == 'ins':
        return s[:i] + rnd.choice(MUT) + s[i:]
    if k == 'del':
        return s[:i] + s[i + 1:]
    return s[:i] + rnd.choice(MUT) + s[i + 1:]


def run(run):
    wd = workdir('c15')
    try:
        # ---------------- MC + GEN (spec -> code) ----------------
        maxlen = 5 if run.tier == 'quick' else 6
        cs = {'Sigma': '{' + ', '.join(tlc.tla_str(c) for c in SIGMA) + '}', 'MaxLen': str(maxlen)}
        text = tlc.mc_module('MC_PathParser', ['PathParser'], cs)
        cfg = tlc.mc_cfg(cs, invariants=['TypeOK', 'SMAgreesWithGrammar', 'PrintParseFixpoint', 'Emit'],
                         properties=['ErrorAbsorbing'])
        res = tlc.run(wd, 'MC_PathParser', cfg, text, lazy_emitted=True, coverage=(run.tier == 'quick'))
        tlc.require_ok(res, 'MC_PathParser')
        if res.violated:
            run.violation(('spec', res.violated, 'tlc'), 'the two definitions in the specification disagree: ' + res.violated,
                          tlc.error_trace(res))
        run.add_tlc(res, 'all strings up to length %d over %d symbols' % (maxlen, len(SIGMA)))
        expected = sum(len(SIGMA) ** k for k in range(maxlen + 1))
        n = 0
        accepted = 0
        from pybufrkit.dataquery import NodePathParser
        shared = NodePathParser()
        first_only = NodePathParser(bare_id_matches_all=False)
        for rec in res.iter_emitted():
            n += 1
            s = ''.join(rec['s'])
            spec = rec['r']
            obs = observe(s)
            if spec['ok']:
                accepted += 1
                run.nontriv(s)
            bad = classify(s, spec, obs)
            if bad:
                run.violation(bad[0], bad[1], {'string': s, 'spec': spec, 'impl': obs})
            # the same string through ONE parser object that has parsed (and rejected) every earlier string: a parse is a
            # function of the string alone (the automaton of the specification starts every parse from its initial state)
            obs2 = observe(s, shared)
            if obs2 != obs:
                bad2 = classify(s, spec, obs2) or (('parse', 'differs-from-fresh-parser', ''), 'outcome %r differs from a fresh parser' % (obs2,))
                run.violation(('shared-parser',) + tuple(bad2[0]), 'after %d earlier strings on the same parser object: %s' % (n - 1, bad2[1]),
                              {'string': s, 'spec': spec, 'impl': obs2, 'note': 'needs the earlier strings on the same NodePathParser object'})
            else:
                # ... and once more: the SAME string again on that object (a parser that remembers what it has seen - parsed
                # paths kept by expression, a path registered before its expression was validated - answers differently now)
                obs3 = observe(s, shared)
                if obs3 != obs:
                    bad3 = classify(s, spec, obs3) or (('parse', 'differs-from-fresh-parser', ''), 'outcome %r differs from a fresh parser' % (obs3,))
                    run.violation(('shared-parser', 'repeat') + tuple(bad3[0]), 'the same string parsed a second time on one parser object: %s' % bad3[1],
                                  {'string': s, 'spec': spec, 'impl': obs3, 'note': 'needs the same string parsed twice on one NodePathParser object'})
            if spec['ok'] and obs['ok']:
                # the print / parse round trip under the parser's other configuration (bare_id_matches_all=False: a bare ID and a
                # missing selector mean the FIRST match, so what is printed must say "all" explicitly where all was written)
                o1 = observe(s, first_only)
                o2 = observe(''.join(o1['printed']), first_only) if o1['ok'] else None
                if not o1['ok'] or not o2['ok'] or (o1['subset'], o1['comps']) != (o2['subset'], o2['comps']):
                    run.violation(('print', 'round-trip', 'first-match-parser'), '%r parsed with bare_id_matches_all=False prints as %r, which parses as another path' % (
                        s, ''.join(o1['printed'])), {'string': s, 'spec': spec, 'impl': o1, 'reparsed': o2, 'note': 'NodePathParser(bare_id_matches_all=False)'})
            if n in (200, 5000, 40000):
                run.sample({'string': s, 'spec': spec, 'impl_ok': obs['ok']})
        if n != expected:
            raise MachineryError('expected %d emitted strings, got %d' % (expected, n))
        run.traces += n
        run.notes['strings_enumerated'] = n
        run.notes['strings_accepted_by_spec'] = accepted

        # ---------------- TRACE (code -> spec) ----------------
        rnd = random.Random(seed() * 7919 + 15)
        ncases = 1500 if run.tier == 'quick' else 12000
        cases = []
        seen = set()
        while len(cases) < ncases:
            e = gen_expr(rnd)
            for s in [e] + [mutate(rnd, e) for _ in range(3)] + [mutate(rnd, mutate(rnd, e))]:
                if s in seen or len(s) > 150:
                    continue
                seen.add(s)
                o = observe(s)
                o['s'] = list(s)
                cases.append(o)
        tf = os.path.join(wd, 'c15_trace.json')
        with open(tf, 'w') as f:
            json.dump(cases, f)
        cs2 = {'Sigma': '{"x"}', 'MaxLen': '1000'}
        text2 = tlc.mc_module('MC_TracePath', ['Trace_PathParser'], cs2)
        cfg2 = tlc.mc_cfg(cs2, init='TInit', next_='TNext', invariants=['EmitVerdict'])
        res2 = tlc.run(wd, 'MC_TracePath', cfg2, text2, env={'TRACE_FILE': tf}, coverage=False)
        tlc.require_ok(res2, 'Trace_PathParser')
        run.add_tlc(res2, 'trace validation of %d recorded parser outcomes' % len(cases), exhaustive=False)
        verdicts = {v['tid']: v['clause'] for v in res2.emitted}
        if len(verdicts) != len(cases):
            raise MachineryError('trace validation returned %d verdicts for %d cases' % (len(verdicts), len(cases)))
        nacc = 0
        for i, c in enumerate(cases):
            cl = verdicts[i + 1]
            s = ''.join(c['s'])
            if cl == 'accepted':
                nacc += 1
                if c['ok']:
                    run.nontriv(s)
                    # print / parse round trip of the long expressions under both configurations of the parser
                    for tag, prs in (('default-parser', NodePathParser()), ('first-match-parser', NodePathParser(bare_id_matches_all=False))):
                        o1 = observe(s, prs)
                        o2 = observe(''.join(o1['printed']), prs) if o1['ok'] else None
                        if not o1['ok'] or not o2['ok'] or (o1['subset'], o1['comps']) != (o2['subset'], o2['comps']):
                            run.violation(('print', 'round-trip', tag), '%r prints as %r, which parses as another path (%s)' % (s, ''.join(o1['printed']), tag),
                                          {'string': s, 'impl': o1, 'reparsed': o2, 'note': tag})
                continue
            if cl == 'verdict':
                obs = c
                spec = {'ok': not c['ok']}
                if c['ok']:
                    bad = classify(s, {'ok': False}, c)
                    sig = bad[0]
                else:
                    sig = ('parse', 'rejected-valid', c['err'])
            elif cl == 'error-type':
                sig = ('parse', 'error-type', c['err'])
            else:
                sig = ('trace', cl, '')
            run.violation(sig, 'trace %r rejected by Trace_PathParser at clause %s (recorded outcome %r)' % (s, cl, {k: c[k] for k in ('ok', 'err', 'subset', 'comps')}),
                          {'string': s, 'recorded': c, 'clause': cl})
        run.traces += len(cases)
        run.notes['trace_cases'] = len(cases)
        run.notes['trace_cases_accepted'] = nacc
        run.sample({'trace_case': ''.join(cases[3]['s']), 'recorded_ok': cases[3]['ok'], 'clause': verdicts[4]})
    finally:
        rm_workdir(wd)
    run.assumptions = ['ID = one or more of [0-9A-Z] (length not constrained)', 'whitespace = space, tab, newline',
                       'slice elements are optionally signed decimal integers (what int() accepts beyond that is not generated)']
    return run.finish('GEN: one case per string over the 12-symbol alphabet up to the length bound (exhaustive); '
                      'TRACE: grammar-derived expressions and 1-2 character mutations; non-trivial = accepted by the specification',
                      trusted=['TLC', 'PathParser.tla grammar as the reading of docs/internals.rst', 'projection of Python slices (proj_slice)'])


def replay(run, path):
    with open(path) as f:
        d = json.load(f)['replay']
    s = d['string']
    obs = observe(s)
    print('string %r -> %r' % (s, obs))
    if 'spec' in d:
        bad = classify(s, d['spec'], obs)
        if bad:
            print('VIOLATION property=C15 replay=%s' % path)
            return 1
    return 0
