"""C17 - metadata queries and metadata-only decoding agree with the full decode.

spec : MdQuery.tla - expression parsing ('%[k.]name'), first-match / explicit-section lookup over the section
       layouts (parameter names read as data from definitions/*.json, cross-checked against Framing.tla),
       metadata-only view of a message; Stream.tla for scanning in metadata-only mode
MC   : every parameter name of editions 2/3/4 (+ names that exist nowhere) x section index none / 0..6 / -1 /
       +1 / blank-padded / non-numeric / empty x prefix {%, blank+%, none, $} x section 2 present or not x
       {full, metadata-only}: LayoutsAgree, RejectWithoutPercent, RejectNonNumericIndex, FirstMatch,
       ExplicitSection, InfoEqualsFullOnSections0to3
GEN  : every case is evaluated by the real MetadataQuerent on the real decode (full or info_only) of the
       specification's message: value or None or MetadataExprParsingError must agree.
       Metadata-only decoding of messages whose data section is damaged (overwritten, undefined
       descriptors, wrong stop signature) must succeed and give the same sections 0-3; scanning in that
       mode delivers the declared extent (Stream.tla runs restricted to metadata-only mode)
"""
import json
import os

from .. import tlc, stream, pyb
from ..common import workdir, rm_workdir, seed, REPO, MachineryError


def project(v):
    if v is None:
        return {'t': 'none', 'v': []}
    if isinstance(v, bool):
        return {'t': 'bool', 'v': [1 if v else 0]}
    if isinstance(v, int):
        return {'t': 'uint', 'v': [v]}
    if isinstance(v, bytes):
        return {'t': 'bytes', 'v': list(v)}
    if isinstance(v, str):
        return {'t': 'bin', 'v': [int(ch) for ch in v]}
    if isinstance(v, list):
        return {'t': 'ids', 'v': list(v)}
    return {'t': 'data', 'v': []}


def check_case(c, querent=None, decoder=None):
    from pybufrkit.decoder import Decoder
    from pybufrkit.mdquery import MetadataExprParser, MetadataQuerent
    from pybufrkit.errors import MetadataExprParsingError
    expr = c['expr']
    feat = 'ed=%d,%s' % (c['e'], 'info' if c['info'] else 'full')
    try:
        msg = (decoder or Decoder()).process(bytes(c['msg']), info_only=c['info'])
    except Exception as e:
        return (('mdquery', 'decode', type(e).__name__, feat), 'decoding the pool message raised %r' % (e,))
    try:
        v = (querent or MetadataQuerent(MetadataExprParser())).query(msg, expr)
        got = project(v)
        err = None
    except MetadataExprParsingError:
        got, err = None, 'MetadataExprParsingError'
    except Exception as e:
        got, err = None, type(e).__name__
    if not c['ok']:
        if err == 'MetadataExprParsingError':
            return None
        kind = 'no-percent' if not expr.strip().startswith('%') else 'bad-index'
        return (('mdquery', 'not-rejected' if err is None else 'error-type:' + err, kind, ''),
                'expression %r: %s, specification rejects it with the metadata parsing error' % (expr, 'answered %r' % (got,) if err is None else 'raised ' + err))
    if err is not None:
        return (('mdquery', 'rejected-valid', err, ''), 'expression %r raised %s, specification answers %r' % (expr, err, c['answer']))
    want = c['answer']
    if got['t'] == 'data' and want['t'] == 'data':
        return None
    if got != want:
        which = 'explicit-section' if c['k'] != -99 else 'first-match'
        return (('mdquery', 'answer', which, feat), 'expression %r on an edition %d message (%s): %r, specification %r' % (
            expr, c['e'], 'section 2 present' if c['has2'] else 'no section 2', got, want))
    return None


def _work(cs):
    return [check_case(c) for c in cs]


def _work_shared(cs):
    """The cases of a chunk through ONE querent (and one Decoder): the answer to an expression is a function of the message
    it is put to - not of the messages the querent has answered it for before (other editions, section 2 present or not)."""
    from pybufrkit.decoder import Decoder
    from pybufrkit.mdquery import MetadataExprParser, MetadataQuerent
    q, d = MetadataQuerent(MetadataExprParser()), Decoder()
    out = []
    for c in cs:
        bad = check_case(c, querent=q, decoder=d)
        out.append((('shared-querent',) + tuple(bad[0]), 'one querent for a series of messages: ' + bad[1]) if bad else None)
    return out


def info_on_damaged(run):
    """Metadata-only decoding never reads the data: overwrite the data section / stop signature and compare sections 0-3."""
    from pybufrkit.decoder import Decoder
    from pybufrkit.renderer import FlatJsonRenderer
    from .. import corpus
    cases, _ = corpus.collect('quick')
    n = 0
    for name, m in cases[seed() % 3::3]:
        full = Decoder().process(m)
        sec4 = [s for s in full.sections if s.get_metadata('index') == 4][0]
        ref = FlatJsonRenderer().render(Decoder().process(m, info_only=True))
        start = len(m) - 4 - sec4.section_length.value
        variants = {'data-all-ones': m[:start + 4] + b'\xff' * (sec4.section_length.value - 4) + m[-4:],
                    'data-zero': m[:start + 4] + b'\x00' * (sec4.section_length.value - 4) + m[-4:],
                    'stop-damaged': m[:-4] + b'7X77'}
        for what, dm in sorted(variants.items()):
            run.traces += 1
            n += 1
            try:
                got = FlatJsonRenderer().render(Decoder().process(dm, info_only=True))
                # ... and with expected values not enforced as well: the two options together are still a metadata-only decode
                got2 = FlatJsonRenderer().render(Decoder().process(dm, info_only=True, ignore_value_expectation=True))
            except Exception as e:
                run.violation(('info-only', 'reads-data', type(e).__name__, what), '%s: metadata-only decode of a message with %s raised %r' % (name, what, e),
                              {'kind': 'info', 'name': name, 'what': what})
                continue
            if json.dumps(got2, default=repr) != json.dumps(got, default=repr):
                run.violation(('info-only', 'differs', 'with-ive', what), '%s: metadata-only decode changes when expected values are not enforced' % name,
                              {'kind': 'info', 'name': name, 'what': what})
                continue
            if json.dumps(got, default=repr) != json.dumps(ref, default=repr):
                run.violation(('info-only', 'differs', '', what), '%s: metadata-only decode changes with %s' % (name, what), {'kind': 'info', 'name': name, 'what': what})
        # sections 0-3 of the full decode equal the metadata-only decode
        fj = FlatJsonRenderer().render(full)
        k = len(ref) - 1
        if json.dumps(fj[:k], default=repr) != json.dumps(ref[:k], default=repr):
            run.violation(('info-only', 'sections0-3', 'differ', ''), '%s: sections 0-3 differ between full and metadata-only decode' % name,
                          {'kind': 'info', 'name': name, 'what': 'sections'})
    return n


def info_scan_over_definitions(run):
    """Metadata-only scanning of a stream that holds table-definition messages (the prepbufr sample) with their data sections
    overwritten: filtered or not, the scan never looks into a data section - definition messages included - and delivers the
    messages the filter selects, each with its declared extent and without template data."""
    from pybufrkit.decoder import Decoder, generate_bufr_message
    with open(os.path.join(REPO, 'tests', 'data', 'prepbufr.bufr'), 'rb') as f:
        data = f.read()
    plain = list(generate_bufr_message(Decoder(), data, info_only=True))
    cats = [m.data_category.value for m in plain]
    spans = []
    at = 0
    for m in plain:
        at = data.index(b'BUFR', at)
        spans.append((at, m.length.value))
        at += m.length.value
    dam = bytearray(data)
    for (a, n), m in zip(spans, plain):
        # section 4 starts after sections 0-3 (their lengths are metadata); its own length is read from its first three octets
        off4 = a + 8 + sum(x.section_length.value for x in m.sections if x.get_metadata('index') in (1, 2, 3))
        len4 = int.from_bytes(data[off4:off4 + 3], 'big')
        if off4 + len4 + 4 != a + n:
            raise MachineryError('prepbufr sample: section 4 of a message is not where the section lengths say')
        for k in range(off4 + 4, off4 + len4):
            dam[k] = 0xFF
    dam = bytes(dam)
    n = 0
    for filt, want in ((None, list(range(len(cats)))), ('${%data_category} == 11', [i for i, c in enumerate(cats) if c == 11]),
                       ('${%data_category} != 11', [i for i, c in enumerate(cats) if c != 11])):
        run.traces += 1
        n += 1
        feat = 'filter' if filt else 'nofilter'
        try:
            got = list(generate_bufr_message(Decoder(), dam, info_only=True, filter_expr=filt))
        except Exception as e:
            run.violation(('info-scan', 'definitions', 'reads-data:' + type(e).__name__, feat),
                          'metadata-only scan (%s) of the prepbufr stream with damaged data sections raised %r' % (filt or 'no filter', e), {'kind': 'info-defs', 'filter': filt})
            continue
        if [bytes(m.serialized_bytes) for m in got] != [dam[spans[i][0]:spans[i][0] + spans[i][1]] for i in want]:
            run.violation(('info-scan', 'definitions', 'yielded-differ', feat), 'metadata-only scan (%s): %d messages delivered, %d selected by the filter' % (
                filt or 'no filter', len(got), len(want)), {'kind': 'info-defs', 'filter': filt})
        elif any(getattr(m, '_template_data', None) is not None for m in got):
            run.violation(('info-scan', 'definitions', 'data-decoded', feat), 'a metadata-only scan delivered a message with decoded data', {'kind': 'info-defs', 'filter': filt})
        else:
            run.nontriv(('info-defs', filt))
    return n


def run(run):
    import multiprocessing as mp
    from .. import fm94
    wd = workdir('c17')
    try:
        thorough = run.tier == 'thorough'
        consts = {'DefDir': tlc.tla_str(os.path.join(REPO, 'pybufrkit', 'definitions')), 'EditionsQ': '{2, 3, 4}',
                  'Prefixes': '{"%", " %", "", "$"}' if not thorough else '{"%", " %", "\\t%", "", "$", "x%", "%%"}',
                  'Indexes': '{"none", "0", "1", "2", "3", "4", "5", "6", "-1", "+1", " 2", "x", "1a", ""}' if not thorough else
                             '{"none", "0", "1", "2", "3", "4", "5", "6", "7", "-1", "+1", "+0", " 2", "2 ", "x", "1a", "a1", "", " ", "1 1", "--1"}',
                  'Suffixes': '{"", " "}', 'ExtraNames': '{"no_such_parameter", ""}'}
        text = tlc.mc_module('MC_MdQuery', ['MdQuery'], consts)
        cfg = tlc.mc_cfg(consts, invariants=['LayoutsAgree', 'RejectWithoutPercent', 'RejectNonNumericIndex', 'FirstMatch', 'ExplicitSection',
                                              'InfoEqualsFullOnSections0to3', 'Emit'])
        res = tlc.run(wd, 'MC_MdQuery', cfg, text, coverage=False, lazy_emitted=True, timeout=3000)
        tlc.require_ok(res, 'MdQuery')
        if res.violated:
            run.violation(('spec', res.violated, 'MdQuery'), 'MdQuery invariant violated', tlc.error_trace(res))
        run.add_tlc(res, 'MdQuery: names x indexes x prefixes x editions x section 2 x mode')
        cases = list(res.iter_emitted())
        chunks = [cases[i:i + 300] for i in range(0, len(cases), 300)]
        with mp.get_context('fork').Pool(14, initializer=fm94._init_worker) as pool:
            out = [x for c in pool.map(_work, chunks) for x in c]
        # the same cases through shared querents: by expression, the messages without section 2 first - and in the reverse order
        order = sorted(range(len(cases)), key=lambda i: (cases[i]['expr'], cases[i]['has2'], cases[i]['e'], cases[i]['info']))
        for tag, idx in (('asc', order), ('desc', order[::-1])):
            seq = [cases[i] for i in idx]
            chunks = [seq[i:i + 600] for i in range(0, len(seq), 600)]
            with mp.get_context('fork').Pool(14, initializer=fm94._init_worker) as pool:
                out2 = [x for c in pool.map(_work_shared, chunks) for x in c]
            for c, bad in zip(seq, out2):
                run.traces += 1
                if bad:
                    run.violation(bad[0], bad[1], {'kind': 'mdquery-shared', 'case': c, 'note': 'needs the earlier cases of the chunk on the same querent (order %s)' % tag})
        nans = 0
        for c, bad in zip(cases, out):
            run.traces += 1
            if c['ok'] and c['answer']['t'] != 'none':
                nans += 1
                run.nontriv((c['e'], c['has2'], c['info'], c['expr']))
            if bad:
                run.violation(bad[0], bad[1], {'kind': 'mdquery', 'case': c})
        run.notes['queries_with_a_value'] = nans
        run.notes['queries_rejected_by_spec'] = sum(1 for c in cases if not c['ok'])
        k = next(i for i, c in enumerate(cases) if c['ok'] and c['answer']['t'] == 'uint' and c['k'] == -99)
        run.sample({x: cases[k][x] for x in ('e', 'has2', 'info', 'expr', 'ok', 'k', 'name', 'answer')})
        # ---- metadata-only scanning: declared extents, damaged data invisible
        res = stream.tlc_run(wd, 'MC_c17_stream', maxmsgs=2, pool=(1, 2, 3, 4), seps=(1, 3), faults=('stop', 'undef_elem', 'undef_seq', 'grow4'),
                             modes='{[info |-> TRUE, cont |-> c, filt |-> f, ive |-> FALSE] : c \\in BOOLEAN, f \\in BOOLEAN}')
        if res.violated:
            run.violation(('spec', res.violated, 'Stream'), 'Stream invariant violated', tlc.error_trace(res))
        run.add_tlc(res, 'Stream, metadata-only mode, faults invisible to it')
        scases = list(res.iter_emitted())
        stream.replay_cases(run, scases, 'info-scan')
        run.notes['info_only_damaged_variants'] = info_on_damaged(run)
        run.notes['info_scans_over_definition_messages'] = info_scan_over_definitions(run)
        from .. import cmd
        cmd.run_commands(run, wd, ['query'], seed())          # the query command: a % query decodes metadata only (Cmd.tla)
    finally:
        rm_workdir(wd)
    run.assumptions = ['parameter names are read from definitions/*.json as data (they are the vocabulary of the query language); values are read from the octets with those layouts and cross-checked against Framing.tla',
                       'expressions with two dots are outside the domain (parameter names contain no dots)',
                       'integer literals: optional sign, decimal digits, surrounding blanks (what int() accepts beyond that is not generated)']
    return run.finish('GEN: one case per (message, mode, expression); non-trivial = accepted expressions with a value; plus metadata-only scanning and damaged-data variants',
                      trusted=['TLC', 'MdQuery.tla', 'Framing.tla', 'definitions/*.json as data'])


def replay(run, path):
    with open(path) as f:
        d = json.load(f)['replay']
    if d.get('kind') == 'mdquery':
        bad = check_case(d['case'])
    elif d.get('kind') == 'stream':
        bad = stream.run_case(d['case'])
    else:
        print('re-run the check for corpus based cases')
        return 0
    print('replay: %r' % (bad,))
    if bad:
        print('VIOLATION property=C17 replay=%s' % path)
        return 1
    return 0
