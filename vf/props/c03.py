"""C03 - decode/encode round trip: quantisation bound, range refusal, canonical fixpoint.

spec : Quant.tla - the value <-> raw relation of one numeric field over exact decimals with one digit
       beyond the scale; effective (width, scale, reference) from the table files under 201/202/207
MC   : every input within +-Reach of both range ends, of the all-ones pattern, of the sign change and of
       zero, for every case: ExactOnGrid, HalfUnit, NeverWrapNorClip, OutOfRangeMustBeRefused,
       FixpointOnGrid
GEN  : every (case, input) is encoded by the real Encoder from the Python number m/10^(s+1) (uncompressed,
       and compressed next to an in-range neighbour) and, if accepted, decoded again: the outcome must be
       one the relation permits (refusal is always permitted; an accepted value must read back as a
       permitted scaled integer, or as missing exactly when that integer is the all-ones pattern)
FIX  : for FM94 behaviours and for the sample corpus, E(render(D(b))) is byte-identical to b (generated)
       resp. the second round trip is byte-identical to the first and decodes to the same values (corpus)
"""
import json
from fractions import Fraction

from .. import tlc, fm94, catalogue, corpus, pyb
from ..common import workdir, rm_workdir, seed, MachineryError

# (id, dw, ds, y): Table B numerics of different width / scale sign / reference sign under operators
BASE = [12001, 11003, 7001, 10004, 13011, 12101, 1001, 1002, 2153]
WIDE = [5001, 6001]            # 25/26 bit fields with large negative references (no 207: stays inside 32-bit TLC integers)


def qcases(tier, sd):
    cs = []
    for e in BASE:
        cs.append(dict(id=e, dw=0, ds=0, y=0))
    for e in WIDE:
        cs.append(dict(id=e, dw=0, ds=0, y=0))
        cs.append(dict(id=e, dw=-3, ds=0, y=0))
    ops = [(2, 0, 0), (-3, 0, 0), (0, 1, 0), (0, -1, 0), (0, 0, 1), (3, 1, 0), (-5, -2, 0), (0, 0, 2), (1, 1, 1)]
    if tier == 'quick':
        ops = ops[sd % 3::3] + [(-5, -2, 0)]
    for e in BASE:
        for dw, ds, y in ops:
            cs.append(dict(id=e, dw=dw, ds=ds, y=y))
    cs.append(dict(id=12001, dw=-11, ds=0, y=0))      # a one-bit numeric: no missing value
    cs.append(dict(id=12001, dw=-10, ds=0, y=0))      # two bits
    # keep the cases whose numbers stay inside TLC's 32-bit integers (shaping of the input set only:
    # the specification computes the effective parameters itself from the same file)
    import os
    with open(os.path.join(fm94.table_dirs(33)[0], 'TableB.json')) as f:
        tb = json.load(f)
    out, seen = [], set()
    for c in cs:
        k = tuple(sorted(c.items()))
        if k in seen:
            continue
        seen.add(k)
        ent = tb['%06d' % c['id']]
        n = ent[4] + c['dw'] + ((10 * c['y'] + 2) // 3 if c['y'] else 0)
        r = ent[3] * 10 ** c['y']
        if 1 <= n <= 27 and (abs(r) + 2 ** n + 30) * 10 < 2 ** 31:
            out.append(c)
    return out


def template_of(c):
    t = []
    if c['dw']:
        t.append(201000 + 128 + c['dw'])
    if c['ds']:
        t.append(202000 + 128 + c['ds'])
    if c['y']:
        t.append(207000 + c['y'])
    return t + [c['id']]


def user_number(m, s):
    """m / 10^(s+1) as the Python number a user would write; None if it is not an integer although the
    effective scale is <= 0 (the property asks for integers there)."""
    e = s + 1
    if e <= 0:
        return m * 10 ** (-e)
    if s <= 0:
        if m % (10 ** e):
            return None
        return m // (10 ** e)
    return float(Fraction(m, 10 ** e))


def read_back_ok(v, permitted, c):
    """Is the decoded value v one of the permitted scaled integers (or missing where all ones is permitted)?"""
    if v is None:
        return any(c['n'] > 1 and N - c['r'] == 2 ** c['n'] - 1 for N in permitted), None
    N, ok = pyb.to_scaled_int(v, c['s'])
    return ok and N in permitted, N


def judge(c):
    """Run one (case, input) through the real encoder / decoder.  Returns None or (signature, detail)."""
    from pybufrkit.encoder import Encoder
    from pybufrkit.decoder import Decoder
    x = user_number(c['m'], c['s'])
    if x is None:
        return 'skipped'
    ids = template_of(c)
    feat = 'n=%d,s=%d,%s' % (c['n'], c['s'], 'ref<0' if c['r'] < 0 else 'ref>=0')
    for cmp_ in (False, True):
        neighbour = user_number(10 * (c['r'] + 1), c['s'])
        subsets = [[x]] if not cmp_ else [[x], [neighbour]]
        try:
            b = Encoder().process(pyb.flat_json(4, ids, len(subsets), cmp_, subsets)).serialized_bytes
        except Exception:
            continue                                   # refused: always permitted
        try:
            d = Decoder().process(b)
            v = pyb.values_of(d, 0)[-1]
        except Exception as e:
            return (('quant', 'decode-of-accepted', type(e).__name__, feat), 'input %r accepted but the result does not decode: %r' % (x, e))
        permitted = c['storable'] if not cmp_ else c['cand']
        if v is None:
            allones = [N for N in permitted if c['n'] > 1 and N - c['r'] == 2 ** c['n'] - 1]
            if not allones:
                return (('quant', 'altered', 'to-missing', feat), '%s input %r reads back as missing' % ('compressed' if cmp_ else 'uncompressed', x))
            continue
        N, ok = pyb.to_scaled_int(v, c['s'])
        if not ok or N not in permitted:
            kind = 'out-of-range-accepted' if not c['storable'] and not cmp_ else 'beyond-half-unit'
            return (('quant', 'altered', kind, feat),
                    '%s: input %r (m=%d) was stored and reads back as %r = %d/10^%d; permitted scaled integers %r' % (
                        'compressed' if cmp_ else 'uncompressed', x, c['m'], v, N, c['s'], permitted))
        if not cmp_ and c['n'] > 1 and N - c['r'] == 2 ** c['n'] - 1:
            return (('quant', 'altered', 'allones-not-missing', feat), 'raw all ones read back as a value')
    # compressed columns whose entries are ALL off the grid (Quant.PointwiseColumn): the input next to every partner,
    # as second of two and as middle of three subsets, so that it is neither the first entry nor (always) the minimum
    ps = [(p, user_number(p['m'], c['s'])) for p in c.get('partners', [])]
    ps = [(p, xp) for p, xp in ps if xp is not None]
    cols = [[(p, xp), (c, x)] for p, xp in ps]
    if len(ps) >= 2:
        cols.append([ps[0], (c, x), ps[-1]])
        cols.append([ps[-1], ps[0], (c, x)])
    for col in cols:
        subsets = [[xv] for _, xv in col]
        try:
            b = Encoder().process(pyb.flat_json(4, ids, len(subsets), True, subsets)).serialized_bytes
        except Exception:
            continue
        try:
            d = Decoder().process(b)
            got = [pyb.values_of(d, i)[-1] for i in range(len(col))]
        except Exception as e:
            return (('quant', 'decode-of-accepted', type(e).__name__, feat), 'column %r accepted but the result does not decode: %r' % (subsets, e))
        for (src, xv), v in zip(col, got):
            ok, N = read_back_ok(v, src['cand'], c)
            if not ok:
                return (('quant', 'altered', 'column-beyond-half-unit', feat),
                        'compressed column %r: input %r (m=%d) reads back as %r (scaled integer %r); permitted %r' % (
                            [s_[0] for s_ in subsets], xv, src['m'], v, N, src['cand']))
    return None


def judge_ref(rc):
    """203YYY: a new reference value v in a sign-and-magnitude field of y bits, then the element coded against it."""
    from pybufrkit.encoder import Encoder
    from pybufrkit.decoder import Decoder
    y, v = rc['y'], rc['v']
    ids = [203000 + y, 12001, 203255, 12001]
    x = (v + 5) / 10.0                      # raw 5 under the new reference, scale 1
    feat = 'y=%d,%s' % (y, 'fits' if rc['fits'] else 'too-wide')
    for cmp_, subsets in ((False, [[v, x]]), (True, [[v, x], [v, (v + 6) / 10.0]])):
        try:
            b = Encoder().process(pyb.flat_json(4, ids, len(subsets), cmp_, subsets)).serialized_bytes
        except Exception:
            continue                       # refused: always permitted
        try:
            got = pyb.values_of(Decoder().process(b), 0)
        except Exception as e:
            return (('quant', 'refval', 'decode-of-accepted:' + type(e).__name__, feat), 'new reference value %d in %d bits accepted but the result does not decode: %r' % (v, y, e))
        if not rc['fits']:
            return (('quant', 'refval', 'out-of-range-accepted', feat),
                    '%s: new reference value %d does not fit %d bits (sign and magnitude) but was stored; it reads back as %r' % ('compressed' if cmp_ else 'uncompressed', v, y, got[0]))
        if got[0] != v or not pyb.matches_scaled_int(got[1], v + 5, 1):
            return (('quant', 'refval', 'altered', feat), 'new reference value %d / element %r read back as %r' % (v, x, got))
    return None


WIDE_ELEMENTS = ((1001, 7, 0), (7001, 15, -400))      # (id, table width, reference); both have scale 0


def judge_wide(job):
    """Quant.WideFits: a raw value (any size, as bits) offered to a field of n bits, n = 1..64, scale 0.  Uncompressed it
    is stored exactly (all ones reads back as missing) or - when its bit length exceeds n - refused."""
    from pybufrkit.encoder import Encoder
    from pybufrkit.decoder import Decoder
    n, row = job
    raw = int(''.join(str(b) for b in row['raw']), 2)
    for eid, w0, ref in WIDE_ELEMENTS:
        ids = ([201000 + 128 + n - w0] if n != w0 else []) + [eid]
        x = raw + ref
        feat = 'n=%d,id=%06d,%s' % (n, eid, 'fits' if row['fits'] else 'too-wide')
        for cmp_, subsets, k in ((False, [[x]], 0), (True, [[ref], [x]], 1), (True, [[x], [ref + 1 if n > 1 else ref]], 0)):
            try:
                b = Encoder().process(pyb.flat_json(4, ids, len(subsets), cmp_, subsets)).serialized_bytes
            except Exception:
                continue                   # refused: always permitted
            try:
                got = pyb.values_of(Decoder().process(b), k)[-1]
            except Exception as e:
                return (('quant', 'wide', 'decode-of-accepted:' + type(e).__name__, feat), 'raw %d in %d bits accepted but the result does not decode: %r' % (raw, n, e))
            if not cmp_ and not row['fits']:
                return (('quant', 'wide', 'out-of-range-accepted', feat),
                        'uncompressed: raw %d (user value %d) does not fit %d bits but was stored; it reads back as %r' % (raw, x, n, got))
            if got is None:
                if not (row['missing'] or (cmp_ and not row['fits'])):
                    return (('quant', 'wide', 'altered-to-missing', feat), '%s: user value %d reads back as missing' % ('compressed' if cmp_ else 'uncompressed', x))
            elif got != x or isinstance(got, float) and int(got) != x:
                return (('quant', 'wide', 'altered', feat), '%s: user value %d (raw %d, %d bits wide field) reads back as %r' % ('compressed' if cmp_ else 'uncompressed', x, raw, n, got))
            elif row['missing'] and not cmp_:
                return (('quant', 'wide', 'allones-not-missing', feat), 'raw all ones read back as the value %r' % (got,))
    return None


def _judge_wide_many(jobs):
    return [judge_wide(j) for j in jobs]


def _judge_many(cs):
    return [judge(c) for c in cs]


def fix_one(beh):
    """E(render(E(x))) = E(x) for a generated behaviour."""
    from pybufrkit.encoder import Encoder
    from pybufrkit.decoder import Decoder
    from pybufrkit.renderer import FlatJsonRenderer
    try:
        j = pyb.flat_json(beh['ed'], beh['ids'], beh['nsub'], beh['cmp'], fm94.flat_values(beh), ident=fm94.ident_of(beh))
        b0 = Encoder().process(j).serialized_bytes
        if beh.get('scoped'):
            # a round trip with template compilation on ONE side only (Scope.Scoped programs): what a compiling encoder writes is
            # what the plain encoder writes, so a plain decoder reads back what was handed over
            bc = Encoder(compiled_template_cache_max=2).process(j).serialized_bytes
            if bc != b0:
                return (('fixpoint', 'compiled-encoder', 'bytes-differ', 'cmp' if beh['cmp'] else 'unc'), 'the compiling encoder writes other bytes than the plain one')
        d0 = Decoder().process(b0)
        b1 = Encoder().process(json.loads(json.dumps(FlatJsonRenderer().render(d0), **_dumps_kw()))).serialized_bytes
    except Exception as e:
        return (('fixpoint', 'exception', type(e).__name__, ''), repr(e))
    if b1 != b0:
        return (('fixpoint', 'generated', 'bytes-differ', 'cmp' if beh['cmp'] else 'unc'), 're-encoding the rendering of an encoded message changes its bytes')
    bad = fm94.compare_decoded(beh, d0, what='decode-of-encoded')
    return bad


def _dumps_kw():
    from pybufrkit.utils import JSON_DUMPS_KWARGS
    return JSON_DUMPS_KWARGS


def _fix_many(behs):
    return [fix_one(b) for b in behs]


def corpus_fix(run):
    from pybufrkit.encoder import Encoder
    from pybufrkit.decoder import Decoder
    from pybufrkit.renderer import FlatJsonRenderer
    cases, skipped = corpus.collect('thorough' if run.tier == 'thorough' else 'quick')
    refused = 0
    for name, b in cases:
        try:
            d0 = Decoder().process(b)
        except Exception as e:
            run.violation(('corpus', 'decode', 'exception', type(e).__name__), '%s: %r' % (name, e), {'kind': 'corpus', 'name': name})
            continue
        try:
            b1 = Encoder().process(FlatJsonRenderer().render(d0)).serialized_bytes
        except Exception:
            refused += 1
            continue
        run.traces += 1
        try:
            d1 = Decoder().process(b1)
            b2 = Encoder().process(FlatJsonRenderer().render(d1)).serialized_bytes
        except Exception as e:
            run.violation(('corpus', 'second-round-trip', 'exception', type(e).__name__), '%s: %r' % (name, e), {'kind': 'corpus', 'name': name})
            continue
        if b2 != b1:
            run.violation(('corpus', 'fixpoint', 'bytes-differ', ''), '%s: second round trip differs from the first' % name, {'kind': 'corpus', 'name': name})
            continue
        def same_value(x, y):
            # strings read back padded to the field width (a foreign compressed column may carry them shorter)
            if isinstance(x, bytes) and isinstance(y, bytes):
                return y == x.ljust(len(y)) if len(y) >= len(x) else False
            return type(x) == type(y) and x == y
        same = all(pyb.labels_of(d0, i) == pyb.labels_of(d1, i) and len(pyb.values_of(d0, i)) == len(pyb.values_of(d1, i))
                   and all(same_value(x, y) for x, y in zip(pyb.values_of(d0, i), pyb.values_of(d1, i)))
                   for i in range(d0.n_subsets.value))
        if not same:
            run.violation(('corpus', 'round-trip', 'values-differ', ''), '%s: values change over decode/encode/decode' % name, {'kind': 'corpus', 'name': name})
        else:
            run.nontriv(('corpus', name))
    run.notes['corpus_round_trips'] = len(cases) - refused
    run.notes['corpus_first_reencode_refused'] = refused


def run(run):
    import multiprocessing as mp
    wd = workdir('c03')
    try:
        cs = qcases(run.tier, seed())
        consts = {'QCases': tlc.tla_val(cs), 'Reach': '12' if run.tier == 'quick' else '25', 'PairOffsets': '{-13, -6, 4, 17}' if run.tier == 'quick' else '{-27, -13, -6, -2, 4, 9, 17, 31}', 'TableDirs': tlc.tla_val(fm94.table_dirs(33)), 'ExtraB': '<<>>', 'ExtraD': '<<>>'}
        text = tlc.mc_module('MC_Quant', ['Quant'], consts)
        cfg = tlc.mc_cfg(consts, invariants=['TypeOK', 'ExactOnGrid', 'HalfUnit', 'NeverWrapNorClip', 'OutOfRangeMustBeRefused',
                                              'FixpointOnGrid', 'PointwiseColumn', 'Emit'])
        res = tlc.run(wd, 'MC_Quant', cfg, text, coverage=False, lazy_emitted=True)
        tlc.require_ok(res, 'Quant')
        if res.violated:
            run.violation(('spec', res.violated, 'Quant'), 'Quant invariant violated', tlc.error_trace(res))
        run.add_tlc(res, 'Quant: %d cases x inputs around the edges' % len(cs))
        items = list(res.iter_emitted())
        reftab = [x for x in items if 'reftable' in x]
        widetab = [x for x in items if 'widetable' in x]
        items = [x for x in items if 'reftable' not in x and 'widetable' not in x]
        if len(widetab) != 64:
            raise MachineryError('Quant printed %d of the 64 wide-range tables' % len(widetab))
        wjobs = [(t['widetable'], row) for t in sorted(widetab, key=lambda t: t['widetable']) for row in t['rows']]
        wchunks = [wjobs[i:i + 80] for i in range(0, len(wjobs), 80)]
        with mp.get_context('fork').Pool(14, initializer=fm94._init_worker) as pool:
            wout = [x for c in pool.map(_judge_wide_many, wchunks) for x in c]
        for (n, row), bad in zip(wjobs, wout):
            run.traces += 1
            run.nontriv(('wide', n, tuple(row['raw'])))
            if bad:
                run.violation(bad[0], bad[1], {'kind': 'wide', 'case': [n, row]})
        run.notes['wide_range_cases'] = len(wjobs)
        run.notes['wide_range_cases_that_must_be_refused'] = sum(1 for _, r in wjobs if not r['fits'])
        if not reftab:
            raise MachineryError('Quant did not print the table of new reference values')
        for rc in reftab[0]['reftable']:
            run.traces += 1
            bad = judge_ref(rc)
            if bad:
                run.violation(bad[0], bad[1], {'kind': 'refval', 'case': rc})
        run.notes['new_reference_value_cases'] = len(reftab[0]['reftable'])
        chunks = [items[i:i + 60] for i in range(0, len(items), 60)]
        with mp.get_context('fork').Pool(14, initializer=fm94._init_worker) as pool:
            out = [x for c in pool.map(_judge_many, chunks) for x in c]
        nskip = nrefuse_needed = 0
        for c, bad in zip(items, out):
            if bad == 'skipped':
                nskip += 1
                continue
            run.traces += 1
            if not c['storable']:
                nrefuse_needed += 1
            run.nontriv((c['id'], c['dw'], c['ds'], c['y'], c['m']))
            if bad:
                run.violation(bad[0], bad[1], {'kind': 'quant', 'case': c})
        run.notes['inputs_that_must_be_refused'] = nrefuse_needed
        run.notes['non_integer_inputs_skipped_for_scale_le_0'] = nskip
        run.sample({'case': {k: items[len(items) // 2][k] for k in ('id', 'dw', 'ds', 'y', 'n', 's', 'r', 'm', 'storable')},
                    'template': template_of(items[len(items) // 2]), 'value': user_number(items[len(items) // 2]['m'], items[len(items) // 2]['s'])})
        # ---- fixpoint on generated messages
        cat = catalogue.catalogue(run.tier, seed())
        for label, group, kw in fm94.batch_plan('quick', seed())[:3] if run.tier == 'quick' else fm94.batch_plan('quick', seed()):
            kw = dict(kw)
            kw['slack'] = 0
            kw['seeds'] = kw['seeds'][:1]
            res = fm94.gen_run(wd, 'MC_fix_' + label.replace(' ', '_'), cat[group], **kw)
            run.add_tlc(res, 'FM94 produce (fixpoint) ' + label)
            behs = [b for b in res.iter_emitted() if not b['err']]
            chunks = [behs[i:i + 40] for i in range(0, len(behs), 40)]
            with mp.get_context('fork').Pool(14, initializer=fm94._init_worker) as pool:
                out = [x for c in pool.map(_fix_many, chunks) for x in c]
            for beh, bad in zip(behs, out):
                run.traces += 1
                if bad:
                    run.violation(bad[0], bad[1], {'kind': 'behaviour', 'behaviour': beh})
        # one Encoder and one Decoder for a series of messages whose table versions alternate (elements and sequences whose
        # entries differ between the versions): the round trip of each is judged as if it were the only one
        fm94.cross_version_pass(run, wd, ('roundtrip',), seed())
        corpus_fix(run)
    finally:
        rm_workdir(wd)
    run.assumptions = ['IEEE-754 arithmetic is not modelled: inputs are decimals with one digit beyond the scale, ties are accepted either way',
                       'a refusal (any exception) is always a permitted outcome here; that conforming values ARE encoded is C02',
                       'cases stay inside 32-bit integers (width <= 30, |reference| * 10 < 2^31); wider fields are covered by C01/C02 with bit patterns']
    return run.finish('Quant GEN: one case per (element, operators, input m); non-trivial = distinct (case, m); FIX: generated behaviours and corpus messages',
                      trusted=['TLC', 'Quant.tla', 'table JSON files', 'projection to scaled integers'])


def replay(run, path):
    with open(path) as f:
        d = json.load(f)['replay']
    if d.get('kind') == 'quant':
        bad = judge(d['case'])
    elif d.get('kind') == 'behaviour':
        bad = fix_one(d['behaviour'])
    elif d.get('kind') == 'wide':
        bad = judge_wide(tuple(d['case']))
    elif d.get('kind') == 'refval':
        bad = judge_ref(d['case'])
    else:
        print('corpus case: re-run the check')
        return 0
    print('replay: %r' % (bad,))
    if bad and bad != 'skipped':
        print('VIOLATION property=C03 replay=%s' % path)
        return 1
    return 0
