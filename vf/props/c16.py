"""C16 - data queries return exactly the values the path designates.

spec : Wiring.tla (hierarchical view from the walker's flat output), Query.tla (evaluation of / and .
       paths with slices, replication envelopes, bare IDs, subset selectors), FM94Tree.tla
MC   : for every FM94 behaviour of the catalogue: TreeConserves; every path that exists in the tree of every
       subset (depth <= 4, thorough 6) with every slice form at every position is evaluated by the
       specification
GEN  : the real DataQuerent evaluates the same expressions (prefixed with the '@[s]' selector of the subset) on
       the real decode of the specification's message, with and without template compilation, compressed and
       uncompressed: nested results must be equal value by value (or a QueryError where the path ends on a
       valueless node); bare IDs of ordinary elements must give the flat occurrences; '@' selectors must
       select exactly the subsets Python slicing selects
"""
import json
import os

from .. import tlc, fm94, catalogue, tree, pyb
from ..common import workdir, rm_workdir, seed, MachineryError


# several siblings / attributes with the same ID, so that slices have something to choose from
REPEATS = [[12001, 2001, 12001, 12001, 2001],
           [103003, 12001, 2001, 12001],
           [102000, 31001, 1001, 1001],
           [301011, 4001, 4002, 4002],
           [12001, 224000, 236000, 101001, 31031, 8023, 224255, 224000, 237000, 8023, 224255, 225000, 237000, 8024, 225255],
           [12001, 11003, 222000, 236000, 101002, 31031, 101000, 31001, 33007, 222000, 237000, 101000, 31001, 33007],
           [204004, 31021, 12001, 12001, 204000, 12001],
           # a local field (206) whose descriptor Table B defines, next to the real element: S12101 and 012101 are different IDs
           [206012, 12101, 12101, 2001], [1001, 206007, 1001, 12001, 1001]]


_WORKER_QUERENT = {}
MALFORMED = ['@[0]', '/001001[1:', '[0:x]', '@[1].001001', '/001001[0:2/001002', '@[-1', '/012001[2:5:']


def same_nested(got, want, ents, col=0):
    """got: nested values from the implementation; want: nested flat positions from the specification."""
    if isinstance(want, list):
        if not isinstance(got, list) or len(got) != len(want):
            return False
        return all(same_nested(g, w, ents) for g, w in zip(got, want))
    if isinstance(got, list):
        return False
    return fm94.impl_matches(got, ents[want - 1][1])


def check_record(rec):
    from pybufrkit.decoder import Decoder
    from pybufrkit.dataquery import NodePathParser, DataQuerent
    from pybufrkit.errors import PyBufrKitError
    beh = rec['b']
    data = bytes(beh['msg'])
    out = []
    try:
        msgs = [('interpreted', Decoder().process(data))]
    except Exception as e:
        return [(('query', 'decode', type(e).__name__, ''), 'decoding raised %r' % (e,), None)], 0
    try:
        # whether compilation preserves decoding is C08's subject (and has its own scope condition);
        # here the compiled decode is queried only when it decoded to the same flat data
        mc = Decoder(compiled_template_cache_max=4).process(data)
        if all(pyb.values_of(mc, i) == pyb.values_of(msgs[0][1], i) and pyb.labels_of(mc, i) == pyb.labels_of(msgs[0][1], i)
               for i in range(beh['nsub'])):
            msgs.append(('compiled', mc))
    except Exception:
        pass
    subs = fm94.subsets_of(beh)
    nq = 0
    # ONE querent per worker process for every record it replays: the same path strings meet messages of different subset counts,
    # templates and storage forms on it (a querent that remembers what a path selected in an earlier message answers wrongly here)
    querent = _WORKER_QUERENT.setdefault(os.getpid(), DataQuerent(NodePathParser()))
    for how, msg in msgs:
        for s, ents in enumerate(subs):
            ti = 0 if beh['cmp'] else s
            for q in rec['queries'][ti]:
                expr = '@[%d]%s' % (s, tree.path_str(q['path']))
                nq += 1
                if nq % 4 == 0:
                    # a malformed path in between (rejected half way through a selector or a slice): the querent lives on, and the
                    # next query is answered as if nothing had happened
                    try:
                        querent.query(msg, MALFORMED[(nq // 4) % len(MALFORMED)])
                    except Exception:
                        pass
                try:
                    qr = querent.query(msg, expr)
                    got = qr.all_values()
                    err = None
                except PyBufrKitError as e:
                    got, err = None, type(e).__name__
                except Exception as e:
                    out.append((('query', 'exception', type(e).__name__, how), '%s raised %r' % (expr, e), expr))
                    continue
                if tree.has_error(q['result']):
                    if err is None:
                        out.append((('query', 'valueless', 'no-error', how), '%s designates a valueless node but returned %r' % (expr, got), expr))
                    continue
                if err is not None:
                    out.append((('query', 'error', err, how), '%s raised %s, specification gives %r' % (expr, err, q['result']), expr))
                    continue
                want = tree.untoken(q['result'])
                if len(got) != 1 or not same_nested(got[0], want, ents):
                    steps = ''.join(c['sep'] for c in q['path'])
                    sl = 'sliced' if any(c['sl']['kind'] != 'all' for c in q['path']) else 'plain'
                    out.append((('query', 'result', 'differs', '%s|%s|%s' % (how, 'attr' if '.' in steps else 'child', sl)),
                                '%s on %r: %r, specification positions %r' % (expr, beh['ids'], got, want), expr))
                if len(out) > 5:
                    return out, nq
            # bare IDs
            for b in rec['bare'][ti]:
                nq += 1
                try:
                    got = querent.query(msg, '@[%d] > %s' % (s, b['id'])).all_values(flat=True)
                except Exception as e:
                    out.append((('query', 'bare-id', 'exception:' + type(e).__name__, how), 'bare id %s raised %r' % (b['id'], e), b['id']))
                    continue
                if len(got) != 1 or len(got[0]) != len(b['at']) or not all(fm94.impl_matches(g, ents[p - 1][1]) for g, p in zip(got[0], b['at'])):
                    out.append((('query', 'bare-id', 'differs', how), 'bare id %s in subset %d: %r, flat positions %r' % (b['id'], s, got, b['at']), b['id']))
        # the same path over ALL subsets at once (no selector) and over the subsets in reverse order: one result per
        # subset, each the specification's evaluation of the path on THAT subset's tree
        if beh['nsub'] >= 1:
            seen = set()
            for ti, qs in enumerate(rec['queries']):
                for q in qs:
                    ps = tree.path_str(q['path'])
                    if ps in seen:
                        continue
                    seen.add(ps)
                    per = q['every'] if (not beh['cmp'] and beh['nsub'] > 1) else [q['result']] * beh['nsub']
                    if any(tree.has_error(r) for r in per):
                        continue
                    for prefix, order in (('', list(range(beh['nsub']))), ('@[::-1]', list(range(beh['nsub'] - 1, -1, -1)))):
                        expr = prefix + ps
                        nq += 1
                        try:
                            qr = querent.query(msg, expr)
                            got, idxs = qr.all_values(), list(qr.subset_indices())
                        except Exception as e:
                            out.append((('query', 'all-subsets', 'exception:' + type(e).__name__, how), '%s raised %r' % (expr, e), expr))
                            continue
                        ok = idxs == order and len(got) == len(order) and all(
                            same_nested(got[k], tree.untoken(per[s2]), subs[s2]) for k, s2 in enumerate(order))
                        if not ok:
                            steps = ''.join(c['sep'] for c in q['path'])
                            out.append((('query', 'all-subsets', 'differs', '%s|%s' % (how, 'attr' if '.' in steps else 'child')),
                                        '%s on %r: %r for subsets %r, specification positions %r' % (expr, beh['ids'], got, idxs, [tree.untoken(per[s2]) for s2 in order]), expr))
                        if len(out) > 5:
                            return out, nq
        # subset selectors
        if how == 'interpreted' and beh['nsub'] >= 2 and subs[0]:
            lab = subs[0][0][0] if subs[0][0][0].isdigit() else None
            for sel in rec['selectors']:
                if sel['sl']['kind'] == 'int' and not (-beh['nsub'] <= sel['sl']['i'] < beh['nsub']):
                    continue
                if lab is None:
                    break
                expr = '@%s > %s' % (tree.slice_str(sel['sl']) or '[:]', lab)
                nq += 1
                try:
                    got = sorted(querent.query(msg, expr).subset_indices())
                except Exception as e:
                    out.append((('query', 'selector', 'exception:' + type(e).__name__, ''), '%s raised %r' % (expr, e), expr))
                    continue
                if got != sorted(sel['picked']):
                    out.append((('query', 'selector', 'differs', sel['sl']['kind']), '%s selects subsets %r, specification %r' % (expr, got, sorted(sel['picked'])), expr))
    return out, nq


def _work(recs):
    return [check_record(r) for r in recs]


def run(run):
    import multiprocessing as mp
    wd = workdir('c16')
    try:
        thorough = run.tier == 'thorough'
        cat = catalogue.catalogue(run.tier, seed())
        r = seed() % 5
        sl = (tree.SLICES[:8] + [tree.SLICES[i] for i in (8, 10, 12, 14)]) if thorough else [tree.SLICES[i] for i in sorted({1, 6, 8, (10, 0, 9, 2, 11, 3, 12, 4, 13, 5, 14, 7)[seed() % 12]})]
        plain = [t for t in cat['plain'] if any(100000 <= d < 200000 or d >= 300000 for d in t) or 204000 < t[0] < 205000]
        ndel = lambda t: sum(1 for d in t if 100000 <= d < 200000 and d % 1000 == 0)
        light = [t for t in cat['struct'] if ndel(t) <= 1]
        heavy = [t for t in cat['struct'] if ndel(t) > 1]
        plan = [('struct', light if not thorough else cat['struct'], dict(subset_counts=(1, 2), fmax=2, seeds=(r,))),
                ('bitmap', cat['bitmap'], dict(subset_counts=(1, 2) if thorough else (2,), fmax=2, seeds=((r + 1) % 5,))),
                ('plain', plain, dict(subset_counts=(2,), seeds=((r + 2) % 5,))),
                ('repeats', REPEATS, dict(subset_counts=(1, 2), fmax=2, seeds=((r + 3) % 5,)))]
        plan.append(('rnd struct', [t for t in cat['rnd_struct'] if ndel(t) <= 1], dict(subset_counts=(2,), fmax=2, seeds=((r + 2) % 5,), compressions=(False,))))
        plan.append(('rnd bitmap', cat['rnd_bitmap'], dict(subset_counts=(2,), fmax=2, seeds=((r + 3) % 5,), compressions=(False, True) if thorough else (False,))))
        if not thorough:
            plan.append(('struct nested', heavy, dict(subset_counts=(1,), fmax=1, seeds=((r + 4) % 5,))))
        total_q = 0
        for label, templates, kw in plan:
            res = tree.gen_run(wd, 'MC_c16_' + label.replace(' ', '_'), templates, slices=sl, path_depth=6 if thorough else 4, **kw)
            if res.violated:
                run.violation(('spec', res.violated, label), 'specification property %s violated' % res.violated, tlc.error_trace(res))
            run.add_tlc(res, 'FM94Tree (paths and their evaluation) ' + label)
            recs = list(res.iter_emitted())
            chunks = [recs[i:i + 10] for i in range(0, len(recs), 10)]
            with mp.get_context('fork').Pool(14, initializer=fm94._init_worker) as pool:
                outs = [x for c in pool.map(_work, chunks) for x in c]
            for rec, (bads, nq) in zip(recs, outs):
                run.traces += nq
                total_q += nq
                for q in rec['queries'][0]:
                    if not tree.has_error(q['result']) and len(q['result']) > 2:
                        run.nontriv((tuple(rec['b']['ids']), tree.path_str(q['path'])))
                for sig, detail, expr in bads:
                    run.violation(sig, detail, {'kind': 'query', 'behaviour': rec['b'], 'expr': expr})
            k = len(recs) // 2
            qs = [q for q in recs[k]['queries'][0] if len(q['result']) > 3][:3]
            run.sample({'ids': recs[k]['b']['ids'], 'cmp': recs[k]['b']['cmp'], 'queries': [(tree.path_str(q['path']), q['result']) for q in qs]}, limit=3)
        run.notes['queries_evaluated_on_implementation'] = total_q
        from .. import cmd
        cmd.run_commands(run, wd, ['query'], seed())          # the query command: formats, first message of each file (Cmd.tla)
    finally:
        rm_workdir(wd)
    run.assumptions = ['paths are generated from the specification tree of each subset (depth bound in the evidence) and evaluated per subset through the @[s] selector',
                       'a path that ends on a valueless node must raise the library query error; out-of-range integer subset selectors are not generated']
    return run.finish('GEN: (behaviour, subset, path with slice variants) triples, each evaluated by the specification and by DataQuerent on interpreted and compiled decodes; non-trivial = distinct (template, path) with a non-empty result',
                      trusted=['TLC', 'Wiring.tla / Query.tla as the documented meaning of paths'])


def replay(run, path):
    with open(path) as f:
        d = json.load(f)['replay']
    from pybufrkit.decoder import Decoder
    from pybufrkit.dataquery import NodePathParser, DataQuerent
    msg = Decoder().process(bytes(d['behaviour']['msg']))
    try:
        print('query %r -> %r' % (d['expr'], DataQuerent(NodePathParser()).query(msg, d['expr']).all_values()))
    except Exception as e:
        print('query %r raised %r' % (d['expr'], e))
    return 0
