"""C13 - no hidden state: results do not depend on what was processed before.

spec : Caches.tla - table-group cache (bounded, most-recent-first eviction), compiled-template cache (bounded,
       arbitrary eviction), message objects; operations decode / failing decode / encode / query / render /
       rewire over a pool of messages that share templates across table versions
MC   : SizeBounded, NoDuplicateKeys, LastRequestedIsCached over all histories up to the bound, for table-group
       limits {1, 2} and compiled-cache sizes {off, 0, 1, 2}; EVERY transition of the state graph is emitted
       (action constraint) together with the shortest history leading to it - a transition tour
GEN  : every emitted history is executed against the real code in worker subprocesses (cache limit set as in
       the model); the observable result of every step - values, labels, links, the four renderings, query
       results, encoded bytes, or the error class - is compared with the result of the same operation on the
       same message in a FRESH process of its own; one long history at the real limit of 50 uses more than 50
       distinct table-group keys (aliases of the table directory)
"""
import json
import os
import subprocess

from .. import tlc, fm94, pyb
from ..common import workdir, rm_workdir, seed, MachineryError, REPO, PY, VERIF

MARK = [12001, 14001, 223000, 101002, 31031, 101000, 31001, 223255]
POOL_DEF = [([14001, 12001], 13), ([14001, 12001], 33), (MARK, 13), (MARK, 33), ([102000, 31001, 12001, 2001], 35), ([203012, 12001, 203255, 12001, 301011], 19)]
BAD = (7, 9, 10)
UNSCOPED = 11
QUERIES = ['/012001', '014001', '/223000', '> 031001', '/102000/002001', '/301011/004001']


def run_worker(wd, tag, job):
    jf, of = os.path.join(wd, tag + '.job.json'), os.path.join(wd, tag + '.out.json')
    with open(jf, 'w') as f:
        json.dump(job, f)
    env = dict(os.environ)
    env['PYTHONPATH'] = REPO + os.pathsep + VERIF
    env['PYTHONHASHSEED'] = '0'
    p = subprocess.run([PY, '-m', 'vf.c13worker', jf, of], cwd=VERIF, env=env, stdout=subprocess.PIPE, stderr=subprocess.PIPE, timeout=3000)
    if p.returncode != 0 or not os.path.exists(of):
        raise MachineryError('worker %s failed: %s' % (tag, p.stderr.decode()[-500:]))
    with open(of) as f:
        return json.load(f)


def build_pool(run, wd):
    pool = {}
    r = seed() % 5
    for i, (ids, mv) in enumerate(POOL_DEF):
        res = fm94.gen_run(wd, 'MC_c13_pool%d' % i, [ids], mversion=mv, compressions=(i % 2 == 1,), subset_counts=(2,), seeds=((r + i) % 5,), fmax=2)
        run.add_tlc(res, 'FM94 produce, pool message %d' % (i + 1))
        behs = [b for b in res.iter_emitted() if not b['err']]
        # the richest behaviour: most bitmap-linked values (markers on elements whose Table B entry differs between the
        # versions of the pool), then most entries - a fixed choice, so the pool does not depend on enumeration order
        def rich(b):
            ents = [e for s in b['subsets'] for e in s]
            return (sum(1 for e in ents if e['link'] > 0), len(ents))
        b = max(behs, key=rich)
        pool[i + 1] = {'octets': b['msg'], 'flat_json': pyb.flat_json(b['ed'], b['ids'], b['nsub'], b['cmp'], fm94.flat_values(b), ident=fm94.ident_of(b)),
                       'queries': QUERIES, 'key': mv, 'tmpl': ids}
    # a message that fails to decode AFTER its tables (a version nobody else uses) have been loaded
    b7 = fm94.gen_run(wd, 'MC_c13_pool_bad', [[12001, 2001]], mversion=41, compressions=(False,), subset_counts=(1,), seeds=(0,))
    beh = [b for b in b7.iter_emitted()][0]
    octs = list(beh['msg'])
    octs[-1] = 56                      # stop signature damaged
    pool[7] = {'octets': octs, 'flat_json': None, 'queries': [], 'key': 41, 'tmpl': [12001, 2001]}
    # message 8: message 1 with an identification whose local tables are not installed (centre 85, local table version 2):
    # the decoder falls back to the WMO tables, the encoder - which does not normalise - refuses
    o8 = list(pool[1]['octets'])
    o8[12:14] = [0, 85]
    o8[22] = 2
    j8 = json.loads(json.dumps(pool[1]['flat_json']))
    j8[1][2], j8[1][11] = 85, 2
    pool[8] = dict(pool[1], octets=o8, flat_json=j8, key=1385)
    # two more ways to fail, both on the table group of message 2 (version 33):
    # message 9 fails while its template is BUILT: section 3 ends with a delayed replication that has no factor (001001 101000)
    b9 = [b for b in fm94.gen_run(wd, 'MC_c13_pool_b9', [[1001, 1002]], mversion=33, compressions=(False,), subset_counts=(1,), seeds=(0,)).iter_emitted()][0]
    o9 = list(b9['msg'])
    s3 = 8 + int.from_bytes(bytes(o9[8:11]), 'big')          # edition 4, no section 2: section 3 follows sections 0 and 1
    if o9[s3 + 9:s3 + 11] != [0x01, 0x02]:
        raise MachineryError('pool message 9: section 3 is not where it was expected')
    o9[s3 + 9:s3 + 11] = [0x41, 0x00]
    pool[9] = {'octets': o9, 'flat_json': None, 'queries': [], 'key': 33, 'tmpl': [1001, 101000]}
    # message 10 fails in the MIDDLE OF ITS DATA: message 4 (markers, version 33) without the last octet of section 4, lengths adjusted
    o10 = list(pool[4]['octets'])
    n4 = None
    at = 8
    for _ in range(3):                                        # sections 1, 3, 4 (no section 2)
        ln = int.from_bytes(bytes(o10[at:at + 3]), 'big')
        n4, at4 = ln, at
        at += ln
    o10 = o10[:at4 + n4 - 1] + o10[at4 + n4:]
    o10[at4:at4 + 3] = list((n4 - 1).to_bytes(3, 'big'))
    o10[4:7] = list((len(o10)).to_bytes(3, 'big'))
    pool[10] = {'octets': o10, 'flat_json': None, 'queries': [], 'key': 33, 'tmpl': pool[4]['tmpl']}
    # message 11: a template OUTSIDE Compiler.Scoped (a 221 count-down runs into a replication): the compiled path and the template
    # walk legitimately give different results for it, so WHICH of the two a coder takes must be decided by its configuration alone,
    # never by what it processed before; its reference result is taken per configuration (compilation on / off)
    ids11 = [221004, 102002, 1001, 12001, 10004]
    b11 = [b for b in fm94.gen_run(wd, 'MC_c13_pool_b11', [ids11], mversion=33, compressions=(False,), subset_counts=(1,), seeds=(1,)).iter_emitted() if not b['err']][0]
    pool[11] = {'octets': b11['msg'], 'flat_json': pyb.flat_json(b11['ed'], b11['ids'], b11['nsub'], b11['cmp'], fm94.flat_values(b11), ident=fm94.ident_of(b11)),
                'queries': ['001001', '/102002/012001'], 'key': 33, 'tmpl': ids11}
    return pool


def run(run):
    import concurrent.futures as cf
    wd = workdir('c13')
    try:
        thorough = run.tier == 'thorough'
        pool = build_pool(run, wd)
        keys = sorted({p['key'] for p in pool.values()})
        tmpls = []
        for p in pool.values():
            if p['tmpl'] not in tmpls:
                tmpls.append(p['tmpl'])
        # ---- reference: every operation on every message in a process of its own
        ref, ref_on = {}, {}
        jobs = []
        for m, p in sorted(pool.items()):
            if m in BAD:
                hist = [{'op': 'decode_fails', 'm': m}]
                if m == 7:
                    jobs.append((m, [{'op': 'decode_ive', 'm': 7}]))
            else:
                hist = [{'op': 'decode', 'm': m}, {'op': 'query', 'm': m}, {'op': 'render', 'm': m}, {'op': 'rewire', 'm': m}]
            jobs.append((m, hist))
            if m != 8:
                jobs.append((m, [{'op': 'info', 'm': m}]))
            if m not in BAD:
                jobs.append((m, [{'op': 'encode', 'm': m}]))       # message 8: the reference result is the refusal
        with cf.ThreadPoolExecutor(8) as ex:
            futs = [ex.submit(run_worker, wd, 'ref%d_%d' % (i, m), {'pool': pool, 'histories': [h]}) for i, (m, h) in enumerate(jobs)]
            for (m, h), f in zip(jobs, futs):
                steps = f.result()[0]
                for st, res in zip(h, steps):
                    ref[(st['op'], m)] = res
            # the unscoped message with template compilation ON, each operation in a fresh process of its own
            for i, h in enumerate(([{'op': 'decode', 'm': UNSCOPED}, {'op': 'query', 'm': UNSCOPED}, {'op': 'render', 'm': UNSCOPED}, {'op': 'rewire', 'm': UNSCOPED}],
                                   [{'op': 'encode', 'm': UNSCOPED}])):
                steps = run_worker(wd, 'refon%d' % i, {'pool': pool, 'histories': [h], 'comp_max': 1})[0]
                for st, res in zip(h, steps):
                    ref_on[(st['op'], UNSCOPED)] = res
        if 'error' in ref[('decode', UNSCOPED)] or 'error' in ref[('encode', UNSCOPED)]:
            raise MachineryError('the unscoped pool message does not decode / encode: %r' % (ref[('decode', UNSCOPED)],))
        run.notes['unscoped_message_differs_between_walk_and_compiled'] = ref_on.get(('decode', UNSCOPED)) != ref[('decode', UNSCOPED)]
        for m in BAD:
            if 'error' not in ref[('decode_fails', m)]:
                raise MachineryError('the damaged pool message %d decodes' % m)
        for (op, m), res in ref.items():
            if (op, m) == ('encode', 8):
                if 'error' not in res:
                    raise MachineryError('the encoder accepts the identification with missing local tables')
                continue
            if op != 'decode_fails' and 'error' in res:        # incl. decode_ive: the lenient decode of the damaged message succeeds
                raise MachineryError('reference run of %s(%d) failed: %r' % (op, m, res))
        # ---- the transition tours
        configs = [(1, -1), (2, 1), (1, 2), (2, 0)] if not thorough else [(1, -1), (1, 0), (1, 1), (1, 2), (2, -1), (2, 0), (2, 1), (2, 2), (3, 1)]
        if not thorough:
            configs = configs[seed() % 2::2] + [configs[(seed() + 1) % 4]]
        configs = list(configs) + [(0, 1)]      # (0, .): the reduced pool {1, 3, 8} with the incomplete identification, real limit 2
        # thorough: every configuration with histories of three operations over the whole pool, and two of them with histories of
        # four over a reduced pool (the state graph grows by a factor of about 25 per step over the ten messages)
        runs = [(tgl, cmax, None, 3) for (tgl, cmax) in configs]
        if thorough:
            runs += [(1, 1, '{1, 2, 4, 7, 9, 11}', 4), (2, 2, '{1, 3, 5, 7, 10, 11}', 4)]
        batches = []
        for (tgl, cmax, msgs_, maxlen) in runs:
            small = tgl == 0        # the reduced pool around the message whose tables are incomplete (see below)
            consts = {'Msgs': (msgs_ or '{1, 2, 3, 4, 5, 6, 7, 9, 10, 11}') if not small else '{1, 3, 8}', 'KeyOf': '<<' + ', '.join(str(keys.index(pool[m]['key']) + 1) for m in range(1, 12)) + '>>',
                      'TmplOf': '<<' + ', '.join(str(tmpls.index(pool[m]['tmpl']) + 1) for m in range(1, 12)) + '>>',
                      'Bad': '{7, 9, 10}', 'Lenient': '{7}', 'Strict': '{8}' if small else '{}', 'TgLimit': str(tgl if not small else 2), 'CompMax': str(cmax), 'MaxLen': str(maxlen)}
            name = 'MC_caches_%d_%s_%d' % (tgl, str(cmax).replace('-', 'm'), maxlen)
            text = tlc.mc_module(name, ['Caches'], consts)
            cfg = tlc.mc_cfg(consts, invariants=['SizeBounded', 'NoDuplicateKeys', 'LastRequestedIsCached'], action_constraints=['EmitTransition'], view='View')
            res = tlc.run(wd, name, cfg, text, coverage=False, lazy_emitted=True, timeout=3000)
            tlc.require_ok(res, name)
            if res.violated:
                run.violation(('spec', res.violated, name), 'Caches invariant violated', tlc.error_trace(res))
            run.add_tlc(res, 'Caches: table-group limit %d, compiled cache %s' % (tgl, 'off' if cmax < 0 else cmax))
            hists = []
            seen = set()
            for h in res.iter_emitted():
                k = json.dumps(h)
                if k not in seen:
                    seen.add(k)
                    hists.append(h)
            # a history that is a prefix of another one is covered by it
            keep = [h for h in hists if not any(len(o) > len(h) and o[:len(h)] == h for o in hists)]
            batches.append(((tgl, cmax), keep))
        work = []
        for (tgl, cmax), hists in batches:
            n = 6
            for i in range(n):
                part = hists[i::n]
                if part:
                    work.append(((tgl, cmax), part, {'pool': pool, 'histories': part, 'tg_limit': tgl or 2, 'comp_max': cmax}))
        with cf.ThreadPoolExecutor(12) as ex:
            futs = [ex.submit(run_worker, wd, 'w%d' % i, job) for i, (_, _, job) in enumerate(work)]
            for (cfgk, part, job), f in zip(work, futs):
                results = f.result()
                for hist, steps in zip(part, results):
                    run.traces += 1
                    run.nontriv((cfgk, json.dumps(hist)))
                    for k, (st, res) in enumerate(zip(hist, steps)):
                        want = ref[(st['op'], st['m'])]
                        if st['m'] == UNSCOPED and cfgk[1] >= 0 and (st['op'], UNSCOPED) in ref_on:
                            want = ref_on[(st['op'], UNSCOPED)]         # this coder compiles: the compiled result, whatever came before
                        if st['op'] == 'decode_fails':
                            ok = 'error' in res and res['error'] == want['error']
                        else:
                            ok = res == want
                        if not ok:
                            diff = 'error' if 'error' in res else next((x for x in want if res.get(x) != want[x]), '?')
                            prev = hist[k - 1]['op'] if k else 'first'
                            run.violation(('history', st['op'], diff, 'after-' + prev),
                                          'limits %r, history %r: step %d %s(message %d) gives a different %s than in a fresh process' % (
                                              cfgk, [(s['op'], s['m']) for s in hist], k, st['op'], st['m'], diff),
                                          {'kind': 'history', 'config': cfgk, 'history': hist, 'step': k})
                            break
        run.notes['histories_executed'] = sum(len(p) for _, p, _ in work)
        run.sample({'limits': work[0][0], 'history': work[0][1][len(work[0][1]) // 2]})
        # ---- the real limit of 50: more than 50 distinct table-group keys through aliases of the table directory
        alias_dir = os.path.join(wd, 'aliases')
        os.makedirs(alias_dir)
        big = dict(pool)
        hist = []
        nalias = 53
        for i in range(nalias):
            a = os.path.join(alias_dir, 't%d' % i)
            os.symlink(os.path.join(REPO, 'pybufrkit', 'tables'), a)
            src = 1 + i % 6
            big[100 + i] = dict(pool[src], root=a)
            hist.append({'op': 'decode', 'm': 100 + i})
            if i % 9 == 4:
                hist.append({'op': 'decode', 'm': 1 + (i // 9) % 6})
        for m in (1, 2, 3, 4, 5, 6, 100, 101, 152):
            hist.append({'op': 'decode', 'm': m})
            if m < 100:
                hist.append({'op': 'render', 'm': m})
        steps = run_worker(wd, 'big', {'pool': big, 'histories': [hist]})[0]
        run.traces += 1
        for k, (st, res) in enumerate(zip(hist, steps)):
            src = st['m'] if st['m'] < 100 else 1 + (st['m'] - 100) % 6
            want = ref[(st['op'], src)]
            if res != want:
                run.violation(('history', 'limit50', 'error' if 'error' in res else 'result', st['op']),
                              'history over %d table-group keys at the real limit: step %d %s(message %d) differs from a fresh process' % (nalias + 6, k, st['op'], st['m']),
                              {'kind': 'big', 'step': k})
                break
        run.notes['keys_in_real_limit_history'] = nalias + 6
    finally:
        rm_workdir(wd)
    run.assumptions = ['worker processes execute many histories one after the other: state that leaks across histories is also a violation of the property, it only makes the replay file longer',
                       'no table-definition message is processed (the property excludes it)',
                       'which compiled template is evicted is the implementation\'s choice; only results are compared']
    return run.finish('GEN: one case per transition of the Caches state graph (history = shortest path + that transition), executed in subprocesses; reference = same operation in a fresh process',
                      trusted=['TLC', 'Caches.tla', 'fresh-process results of the implementation as the reference (C01/C02 tie those to FM94.tla)'])


def replay(run, path):
    print('re-run the check: histories are executed in worker subprocesses')
    return 0
