"""C06 - subsets of an uncompressed message are decoded independently of each other.

spec : FM94.tla - NextSubset re-initialises every register (ResetPolicy "fm94"); the action property
       SubsetsStartFresh states it.  A second run with ResetPolicy "leaky" (what switch_subset_context
       used to reset) must VIOLATE it - that run documents which templates carry state over and shows
       the property is not vacuous for the catalogue.
GEN  : uncompressed behaviours with 2..3 subsets whose replication counts and bitmaps are chosen
       independently per subset.  TLC also emits, per behaviour, each subset as a message of its own
       and the message with the subsets in reverse order (all assembled by Framing.tla).  The real
       Decoder decodes (a) the whole message - compared with the specification, (b) every solo message
       - values, labels, links and the nested (hierarchical) rendering must equal, position by position,
       what the joint decode gave for that subset, (c) the reversed message - the result is the reversed
       result.  The real Encoder encodes the joint values and each subset alone; bytes must equal the
       specification's messages.
"""
import json

from .. import tlc, fm94, catalogue, pyb
from ..common import workdir, rm_workdir, seed, MachineryError


def nested_subsets(msg):
    from pybufrkit.renderer import NestedJsonRenderer
    data = NestedJsonRenderer().render(msg)
    for sec in data:
        for par in sec:
            if par['name'] == 'template_data':
                return par['value']
    return None


def solo_view(msg, i):
    return {'labels': pyb.labels_of(msg, i), 'values': pyb.values_of(msg, i), 'links': pyb.links_of(msg, i)}


def check_one(rec):
    from pybufrkit.decoder import Decoder
    from pybufrkit.encoder import Encoder
    beh = rec['b']
    bad, joint = fm94.replay_decode(beh)
    if bad:
        return bad
    bad, _ = fm94.replay_encode(beh)
    if bad:
        return bad
    try:
        jn = nested_subsets(joint)
    except Exception as e:
        return (('independent', 'nested', 'exception', type(e).__name__), 'nested rendering of the joint decode raised %r' % (e,))
    vals = fm94.flat_values(beh)
    for s, octets in enumerate(rec['solo']):
        try:
            m = Decoder().process(bytes(octets))
        except Exception as e:
            return (('independent', 'solo-decode', 'exception', type(e).__name__), 'subset %d alone: decoder raised %r' % (s, e))
        a, b = solo_view(joint, s), solo_view(m, 0)
        for k in ('labels', 'values', 'links'):
            if a[k] != b[k] or (k == 'values' and [type(x) for x in a[k]] != [type(x) for x in b[k]]):
                return (('independent', 'solo-vs-joint', k, 'subset>0' if s else 'subset0'),
                        'subset %d: %s decoded jointly %r, alone %r' % (s, k, a[k], b[k]))
        try:
            sn = nested_subsets(m)
        except Exception as e:
            return (('independent', 'nested', 'exception', type(e).__name__), 'nested rendering of subset %d alone raised %r' % (s, e))
        if json.dumps(jn[s], default=repr, sort_keys=True) != json.dumps(sn[0], default=repr, sort_keys=True):
            return (('independent', 'solo-vs-joint', 'nested', 'subset>0' if s else 'subset0'),
                    'subset %d: hierarchical structure differs between the joint and the solo decode' % s)
        try:
            e1 = Encoder().process(pyb.flat_json(beh['ed'], beh['ids'], 1, False, [vals[s]], ident=fm94.ident_of(beh))).serialized_bytes
        except Exception as e:
            return (('independent', 'solo-encode', 'exception', type(e).__name__), 'subset %d alone: encoder raised %r' % (s, e))
        if e1 != bytes(octets):
            return (('independent', 'solo-encode', 'bytes', ''), 'subset %d encoded alone differs from the specification' % s)
    try:
        r = Decoder().process(bytes(rec['rev']))
    except Exception as e:
        return (('independent', 'reversed-decode', 'exception', type(e).__name__), 'reversed order: decoder raised %r' % (e,))
    n = beh['nsub']
    for s in range(n):
        a, b = solo_view(joint, s), solo_view(r, n - 1 - s)
        if a != b:
            return (('independent', 'permutation', 'differ', ''), 'subset %d decodes differently when the order is reversed' % s)
    # the same with template compilation on: whatever the compiled form computes for a subset (inside or outside the
    # scope in which C08 ties it to the specification), it must compute it for that subset ALONE as well - the
    # comparison is between the compiled joint decode and the compiled solo decodes
    def compiled(octets):
        try:
            return Decoder(compiled_template_cache_max=2).process(bytes(octets)), None
        except Exception as e:
            return None, type(e).__name__
    cj, cj_err = compiled(beh['msg'])
    solos = [compiled(o) for o in rec['solo']]
    if cj is None:
        if not any(err for _, err in solos):
            return (('independent', 'compiled', 'joint-raises', cj_err), 'with compilation the joint decode raises %s although every subset decodes alone' % cj_err)
        return None
    for s, (m, err) in enumerate(solos):
        if m is None:
            return (('independent', 'compiled', 'solo-raises', err), 'with compilation subset %d alone raises %s although the joint decode succeeds' % (s, err))
        a, b = solo_view(cj, s), solo_view(m, 0)
        for k in ('labels', 'values', 'links'):
            if a[k] != b[k]:
                return (('independent', 'compiled', 'solo-vs-joint', k), 'with compilation, subset %d: %s decoded jointly %r, alone %r' % (s, k, a[k], b[k]))
    return None


def _work(recs):
    return [check_one(r) for r in recs]


def run(run):
    import multiprocessing as mp
    wd = workdir('c06')
    try:
        cat = catalogue.catalogue(run.tier, seed())
        rot = seed() % 5
        thorough = run.tier == 'thorough'
        plan = [('open', cat['open'], dict(subset_counts=(2, 3) if thorough else (2,), seeds=(rot, (rot + 2) % 5), fmax=2)),
                ('struct', cat['struct'], dict(subset_counts=(2, 3) if thorough else (2,), seeds=(rot,), fmax=2)),
                ('bitmap', cat['bitmap'], dict(subset_counts=(2,), seeds=((rot + 1) % 5,), fmax=2)),
                ('plain', cat['plain'], dict(subset_counts=(3,), seeds=((rot + 3) % 5,))),
                # grammar-derived templates of this seed (vf/gen.py): delayed replications in front of operator brackets and
                # bitmaps, so that the subsets of one message differ in structure
                ('rnd_struct', cat['rnd_struct'], dict(subset_counts=(2,), seeds=((rot + 4) % 5,), fmax=2)),
                ('rnd_bitmap', cat['rnd_bitmap'], dict(subset_counts=(2,), seeds=(rot,), fmax=2))]
        for label, templates, kw in plan:
            res = fm94.gen_run(wd, 'MC_c06_' + label, templates, compressions=(False,), emit='EmitSolo',
                               properties=('SubsetsStartFresh',), editions=(4,) if label != 'plain' else (3,), **kw)
            if res.violated:
                run.violation(('spec', res.violated, label), 'FM94 property %s violated' % res.violated, tlc.error_trace(res))
            run.add_tlc(res, 'FM94 produce, uncompressed multi-subset, ' + label)
            recs = [r for r in res.iter_emitted() if not r['b']['err']]
            chunks = [recs[i:i + 25] for i in range(0, len(recs), 25)]
            if chunks:
                with mp.get_context('fork').Pool(14, initializer=fm94._init_worker) as pool:
                    out = [x for c in pool.map(_work, chunks) for x in c]
                for rec, bad in zip(recs, out):
                    run.traces += 1
                    shapes = tuple(tuple(e['lab'] for e in s) for s in rec['b']['subsets'])
                    if len(set(shapes)) > 1:
                        run.nontriv(fm94.structure_key(rec['b']))       # subsets of different structure
                    if bad:
                        run.violation(('subsets',) + tuple(bad[0]), bad[1], {'kind': 'solo', 'record': rec})
                run.sample(fm94.brief(recs[len(recs) // 2]['b']), limit=4)
        # non-vacuity: with the old reset policy the specification itself must break SubsetsStartFresh
        res = fm94.gen_run(wd, 'MC_c06_leaky', cat['open'], compressions=(False,), subset_counts=(2,), seeds=(0,), fmax=1,
                           reset='leaky', emit=None, properties=('SubsetsStartFresh',), invariants=['TypeOK'])
        run.add_tlc(res, 'FM94 with ResetPolicy "leaky": SubsetsStartFresh is expected to be violated', exhaustive=False)
        if res.violated != 'SubsetsStartFresh':
            raise MachineryError('the leaky reset policy does not violate SubsetsStartFresh (%r): the catalogue would not exercise C06' % res.violated)
        run.notes['leaky_policy_counterexample_found'] = True
    finally:
        rm_workdir(wd)
    run.assumptions = ['each subset alone is a message assembled by Framing.tla from that subset\'s bits of the joint message',
                       'distinct_nontrivial counts behaviours whose subsets differ in structure (replication counts / bitmaps)']
    return run.finish('GEN: one case per uncompressed behaviour with >= 2 subsets; every subset also alone and the whole in reverse order',
                      trusted=['TLC', 'FM94.tla', 'Framing.tla'])


def replay(run, path):
    with open(path) as f:
        d = json.load(f)['replay']
    bad = check_one(d['record'])
    print('replay: %r' % (bad,))
    if bad:
        print('VIOLATION property=C06 replay=%s' % path)
        return 1
    return 0
