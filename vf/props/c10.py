"""C10 - subsetting keeps exactly the selected subsets and nothing else changes.

spec : Subset.tla (which subsets a request designates, refusal) over FM94.tla behaviours (what each subset holds)
MC   : every request of 1..4 indices over -1..n for n = 1..3 (thorough 4): CountIsDistinct, IthIsIthSmallest,
       OutOfRangeRefused
GEN  : every request is applied with BufrMessage.subset to real decodes of FM94 messages with n subsets
       (compressed and uncompressed; catalogue templates incl. delayed replication and bitmaps), the result is
       encoded and decoded by the real code: subset count, the values of each kept subset (the specification's,
       up to all-ones = missing), template, identification, compression flag must be as specified, the source
       message unchanged, out-of-range requests refused with the library error; `pybufrkit subset` on a sample
TRACE: multi-subset sample files x {first, last, full, reversed, repeated, out of range by one}
"""
import json
import os

from .. import tlc, fm94, catalogue, pyb, corpus, stream
from ..common import workdir, rm_workdir, seed, MachineryError


def meta_of(msg):
    out = {}
    for sec in msg.sections:
        idx = sec.get_metadata('index')
        for par in sec:
            if par.type == 'template_data' or par.name in ('section_length', 'length', 'n_subsets'):
                continue
            out['%d.%s' % (idx, par.name)] = par.value
    return out


def flat_of(msg):
    return [pyb.values_of(msg, i) for i in range(msg.n_subsets.value)], [pyb.labels_of(msg, i) for i in range(msg.n_subsets.value)]


def via_command(beh, c, src):
    """The same request through the command layer (pybufrkit.commands.command_subset, what `pybufrkit subset` runs),
    in-process: returns the decoded result, or the name of the error class."""
    import argparse
    import tempfile
    from pybufrkit import commands
    from pybufrkit.decoder import Decoder
    d = tempfile.mkdtemp(prefix='c10cmd', dir=os.environ.get('VERIF_WORK') or None)
    try:
        fin, fout = os.path.join(d, 'in.bufr'), os.path.join(d, 'out.bufr')
        with open(fin, 'wb') as f:
            f.write(bytes(beh['msg']))
        ns = argparse.Namespace(definitions_directory=None, tables_root_directory=None, compiled_template_cache_max=None,
                                subset_indices=','.join(str(i) for i in c['req']), filename=fin, output_filename=fout,
                                ignore_value_expectation=False)
        try:
            commands.command_subset(ns)
        except Exception as e:
            return None, type(e).__name__ if not isinstance(e, __import__('pybufrkit.errors', fromlist=['x']).PyBufrKitError) else 'PyBufrKitError'
        with open(fout, 'rb') as f:
            return Decoder().process(f.read()), None
    finally:
        import shutil
        shutil.rmtree(d, ignore_errors=True)


def apply_request(beh, c, via='api'):
    """One (behaviour, request) pair.  Returns None or (signature, detail)."""
    from pybufrkit.decoder import Decoder
    from pybufrkit.encoder import Encoder
    from pybufrkit.errors import PyBufrKitError
    data = bytes(beh['msg'])
    if via == 'command':
        src = Decoder().process(data)
        feat = 'command,' + ('cmp' if beh['cmp'] else 'unc') + (',repeat' if len(set(c['req'])) < len(c['req']) else '')
        res, err = via_command(beh, c, src)
        if c['refused']:
            if err == 'PyBufrKitError':
                return None
            return (('subset', 'out-of-range', 'accepted' if err is None else 'error-type:' + err, feat), 'command layer: request %r on %d subsets: %s' % (c['req'], c['n'], err or 'accepted'))
        if err is not None:
            return (('subset', 'refused-valid', err, feat), 'command layer: request %r on %d subsets raised %s' % (c['req'], c['n'], err))
        return compare_result(beh, c, src, res, feat)
    try:
        src = Decoder().process(data)
    except Exception as e:
        return (('subset', 'decode-source', type(e).__name__, ''), repr(e))
    before = flat_of(src)
    feat = ('cmp' if beh['cmp'] else 'unc') + (',repeat' if len(set(c['req'])) < len(c['req']) else '')
    try:
        j = src.subset(list(c['req']))
        err = None
    except PyBufrKitError as e:
        j, err = None, 'PyBufrKitError'
    except Exception as e:
        j, err = None, type(e).__name__
    if c['refused']:
        if err == 'PyBufrKitError':
            return None
        if err is None:
            try:
                Encoder().process(j)
            except PyBufrKitError:
                return None
            except Exception as e:
                return (('subset', 'out-of-range', 'error-type:' + type(e).__name__, feat), 'request %r on %d subsets raised %r' % (c['req'], c['n'], e))
            return (('subset', 'out-of-range', 'accepted', feat), 'request %r on %d subsets was accepted' % (c['req'], c['n']))
        return (('subset', 'out-of-range', 'error-type:' + err, feat), 'request %r on %d subsets raised %s' % (c['req'], c['n'], err))
    if err is not None:
        return (('subset', 'refused-valid', err, feat), 'request %r on %d subsets raised %s' % (c['req'], c['n'], err))
    try:
        # another extraction from the same message BEFORE the first one is encoded: each result is data of its own
        src.subset([c['selected'][-1]] if len(c['selected']) > 1 else [(c['selected'][0] + 1) % c['n']])
        out = Encoder().process(j)
        res = Decoder().process(out.serialized_bytes)
    except Exception as e:
        return (('subset', 'encode-result', type(e).__name__, feat), 'encoding / decoding the result of request %r raised %r' % (c['req'], e))
    if flat_of(src) != before:
        return (('subset', 'source', 'modified', feat), 'the source message changed')
    bad = compare_result(beh, c, src, res, feat)
    if bad:
        return bad
    # "gives a valid message" whichever way the encoder treats the lengths the data carry: with declared lengths honoured
    # (ignore_declared_length=False) the result may be longer (zero-filled sections, C04) but its section-0 length is its size,
    # it ends with the stop signature and it decodes to the same subsets
    try:
        b2 = bytes(Encoder(ignore_declared_length=False).process(src.subset(list(c['req']))).serialized_bytes)
    except PyBufrKitError:
        return None                                  # a refusal is not an invalid message
    except Exception as e:
        return (('subset', 'encode-result', type(e).__name__, feat + ',honour'), 'encoding the result of request %r with declared lengths honoured raised %r' % (c['req'], e))
    if int.from_bytes(b2[4:7], 'big') != len(b2) or b2[-4:] != b'7777':
        return (('subset', 'invalid-message', 'length', feat + ',honour'), 'request %r encoded with declared lengths honoured: section 0 declares %d octets, the message has %d' % (
            c['req'], int.from_bytes(b2[4:7], 'big'), len(b2)))
    try:
        res2 = Decoder().process(b2)
    except Exception as e:
        return (('subset', 'invalid-message', type(e).__name__, feat + ',honour'), 'the result encoded with declared lengths honoured does not decode: %r' % (e,))
    return compare_result(beh, c, src, res2, feat + ',honour')


def compare_result(beh, c, src, res, feat):
    if res.n_subsets.value != len(c['selected']):
        return (('subset', 'count', 'differs', feat), 'request %r: %d subsets, specification %d' % (c['req'], res.n_subsets.value, len(c['selected'])))
    if res.is_compressed.value != src.is_compressed.value:
        return (('subset', 'compression-flag', 'changed', feat), 'request %r: compression flag %r -> %r' % (c['req'], src.is_compressed.value, res.is_compressed.value))
    if list(res.unexpanded_descriptors.value) != list(src.unexpanded_descriptors.value):
        return (('subset', 'template', 'changed', feat), 'template changed')
    if meta_of(res) != meta_of(src):
        diff = [k for k in meta_of(src) if meta_of(src)[k] != meta_of(res).get(k)]
        return (('subset', 'metadata', 'changed', ','.join(diff)[:40]), 'metadata changed: %r' % diff)
    subs = fm94.subsets_of(beh)
    for i, k in enumerate(c['selected']):
        ents = subs[k]
        vals, labs = pyb.values_of(res, i), pyb.labels_of(res, i)
        if labs != [e[0] for e in ents]:
            return (('subset', 'labels', 'differ', feat), 'request %r: subset %d (source %d) has labels %r' % (c['req'], i, k, labs))
        for q, (lab, sv, link, e) in enumerate(ents):
            ok = fm94.impl_matches(vals[q], sv)
            if not ok and sv[0] == 'str' and vals[q] is None:
                ok = all(ch == 255 for ch in sv[1])
            if not ok:
                return (('subset', 'values', 'differ', feat), 'request %r: subset %d (source %d) index %d: %r, specification %r' % (c['req'], i, k, q, vals[q], sv))
    return None


def _work(args):
    beh, cs = args[0], args[1]
    via = args[2] if len(args) > 2 else 'api'
    return [apply_request(beh, c, via) for c in cs]


def cli_subset(run, wd, pairs):
    from pybufrkit.decoder import Decoder
    n = 0
    for beh, c in pairs:
        d = os.path.join(wd, 'cli%d' % n)
        os.makedirs(d)
        n += 1
        fin, fout = os.path.join(d, 'in.bufr'), os.path.join(d, 'out.bufr')
        with open(fin, 'wb') as f:
            f.write(bytes(beh['msg']))
        rc, out, err = stream.cli(['subset', ','.join(str(i) for i in c['req']), fin, fout])
        run.traces += 1
        if 'Traceback' in err:
            run.violation(('cli', 'subset', 'traceback', ''), 'pybufrkit subset printed a traceback: %s' % err[-300:], {'kind': 'subset', 'behaviour': beh, 'case': c})
            continue
        if c['refused']:
            if rc == 0 and os.path.exists(fout):
                run.violation(('cli', 'subset', 'out-of-range-accepted', ''), 'pybufrkit subset accepted %r' % (c['req'],), {'kind': 'subset', 'behaviour': beh, 'case': c})
            continue
        try:
            with open(fout, 'rb') as f:
                res = Decoder().process(f.read())
            ok = res.n_subsets.value == len(c['selected'])
        except Exception:
            ok = False
        if not ok:
            run.violation(('cli', 'subset', 'result', ''), 'pybufrkit subset %r: wrong result (rc %d, %s)' % (c['req'], rc, err[-200:]), {'kind': 'subset', 'behaviour': beh, 'case': c})
    return n


def corpus_part(run):
    from pybufrkit.decoder import Decoder
    from pybufrkit.encoder import Encoder
    from pybufrkit.errors import PyBufrKitError
    cases, _ = corpus.collect(run.tier)
    n = 0
    for name, m in cases:
        try:
            src = Decoder().process(m)
        except Exception:
            continue
        ns = src.n_subsets.value
        if ns < 2:
            continue
        n += 1
        vals = [pyb.values_of(src, i) for i in range(ns)]
        for req, want in (([0], [0]), ([ns - 1], [ns - 1]), (list(range(ns)), list(range(ns))), (list(range(ns - 1, -1, -1)), list(range(ns))),
                          ([1, 0, 1], [0, 1]), ([ns], None), ([-1], None)):
            run.traces += 1
            try:
                res = Decoder().process(Encoder().process(src.subset(req)).serialized_bytes)
                got = [pyb.values_of(res, i) for i in range(res.n_subsets.value)]
            except PyBufrKitError:
                got = None
            except Exception as e:
                if isinstance(e, FileNotFoundError):
                    break         # encoder cannot find the (fall-back) tables: refused, see DESIGN C03
                run.violation(('corpus', 'subset', 'exception:' + type(e).__name__, 'refuse' if want is None else 'valid'),
                              '%s: request %r raised %r' % (name, req, e), {'kind': 'corpus', 'name': name, 'req': req})
                continue
            exp = None if want is None else [vals[k] for k in want]

            def same(g, e):
                # a foreign compressed message may carry a string in fewer octets than its element has; re-encoded, it
                # reads back padded to the field width (C03 says so) - nothing else may differ
                if isinstance(g, bytes) and isinstance(e, bytes):
                    return g == e or (len(e) <= len(g) and e.ljust(len(g)) == g)
                return type(g) == type(e) and g == e
            ok = (got is None) == (exp is None) and (got is None or (
                len(got) == len(exp) and all(len(a) == len(b) and all(same(x, y) for x, y in zip(a, b)) for a, b in zip(got, exp))))
            if not ok:
                run.violation(('corpus', 'subset', 'differs', 'refuse' if want is None else 'valid'), '%s: request %r gives a wrong result' % (name, req),
                              {'kind': 'corpus', 'name': name, 'req': req})
            else:
                run.nontriv(('corpus', name, tuple(req)))
    run.notes['corpus_multi_subset_messages'] = n


def run(run):
    import multiprocessing as mp
    wd = workdir('c10')
    try:
        thorough = run.tier == 'thorough'
        maxn = 4 if thorough else 3
        big = (11, 17) if thorough else (11,)
        consts = {'MaxSubsets': str(maxn), 'MaxReq': '4' if thorough else '3', 'BigCounts': '{' + ', '.join(map(str, big)) + '}'}
        text = tlc.mc_module('MC_Subset', ['Subset'], consts)
        res = tlc.run(wd, 'MC_Subset', tlc.mc_cfg(consts, invariants=['CountIsDistinct', 'IthIsIthSmallest', 'OutOfRangeRefused', 'Emit']), text,
                      coverage=False, lazy_emitted=True)
        tlc.require_ok(res, 'Subset')
        if res.violated:
            run.violation(('spec', res.violated, 'Subset'), 'Subset invariant violated', tlc.error_trace(res))
        run.add_tlc(res, 'Subset: all requests up to %s indices for up to %d subsets' % (consts['MaxReq'], maxn))
        reqs = {}
        for c in res.iter_emitted():
            reqs.setdefault(c['n'], []).append(c)
        # messages with n subsets
        cat = catalogue.catalogue(run.tier, seed())
        r = seed() % 5
        templates = cat['struct'][:6] + cat['bitmap'][:5] + [[12001, 2001, 1015], [201185, 1001, 201000, 31031], [102002, 11003, 8042],
                                                             # eight strings / numerics / code tables in a row: every kind of column (see catalogue)
                                                             [1015, 1008, 1011, 25061, 1015, 1008, 1011, 25061],
                                                             [12001, 11003, 7001, 10004, 13011, 12101, 1002, 5001],
                                                             [2001, 1003, 2003, 20003, 2002, 8042, 31021, 8023]]
        jobs = []
        cli_pairs = []
        for n in range(1, maxn + 1):
            # editions rotate with n; every identification field at the top of its range for odd n (year of the century 100,
            # two-octet centres, category 255, ...): "identification unchanged" is observable only where a field is not 0
            res = fm94.gen_run(wd, 'MC_c10_n%d' % n, templates, subset_counts=(n,), seeds=((r + n) % 5,), fmax=1 if n > 2 else 2, slack=0,
                               editions=((4, 3, 2)[(n + seed()) % 3],), identv=n % 2)
            run.add_tlc(res, 'FM94 produce, %d subsets' % n)
            behs = [b for b in res.iter_emitted() if not b['err']]
            # every request on a rotating sample of messages, every message with a rotating sample of requests
            step = max(1, len(behs) // (12 if thorough else 5))
            for b in behs[r % step::step]:
                jobs.append((b, reqs[n]))
            rs = reqs[n]
            for i, b in enumerate(behs):
                jobs.append((b, rs[(i * 7 + r) % len(rs)::max(1, len(rs) // 6)]))
            if behs:
                # EVERY request of the bounded space through the command layer (in-process), on two messages per n
                for b in (behs[r % len(behs)], behs[(r + len(behs) // 2) % len(behs)]):
                    jobs.append((b, rs, 'command'))
                cli_pairs += [(behs[(r + k) % len(behs)], rs[(r * 3 + k * 5) % len(rs)]) for k in range(3 if thorough else 1)]
        # messages with many subsets (Subset.BigCounts): requests out of order and with repeats over indices on both sides of 8
        # and of the middle; the template has a widened numeric, a string and a code table next to ordinary numerics, so that the
        # value classes (periods 5, 6 and 7 over the subsets) tell any two of the subsets apart
        big_templates = [[201130, 12001, 201000, 1015, 2001, 11003, 1001], [102002, 11003, 8042, 1008, 201129, 10004, 201000]]
        for n in big:
            res = fm94.gen_run(wd, 'MC_c10_big%d' % n, big_templates, subset_counts=(n,), seeds=((r + n) % 5,), slack=0,
                               editions=((4, 3, 2)[(n + seed()) % 3],), identv=n % 2)
            run.add_tlc(res, 'FM94 produce, %d subsets' % n)
            behs = [b for b in res.iter_emitted() if not b['err']]
            rs = reqs[n]
            for b in behs:
                for i in range(0, len(rs), 200):
                    jobs.append((b, rs[i:i + 200]))
            if behs:
                jobs.append((behs[r % len(behs)], rs[r % 3::3], 'command'))
            run.notes['requests_on_%d_subsets' % n] = len(rs)
        with mp.get_context('fork').Pool(14, initializer=fm94._init_worker) as pool:
            outs = pool.map(_work, jobs)
        for job, out in zip(jobs, outs):
            beh, cs = job[0], job[1]
            for c, bad in zip(cs, out):
                run.traces += 1
                run.nontriv((tuple(beh['ids']), beh['cmp'], beh['nsub'], tuple(c['req'])))
                if bad:
                    run.violation(bad[0], bad[1], {'kind': 'subset', 'behaviour': beh, 'case': c})
        run.sample({'ids': jobs[0][0]['ids'], 'cmp': jobs[0][0]['cmp'], 'request': jobs[0][1][5]})
        run.notes['cli_cases'] = cli_subset(run, wd, cli_pairs)
        corpus_part(run)
    finally:
        rm_workdir(wd)
    run.assumptions = ['values are compared up to FM-94\'s identification of a field\'s all-ones pattern with missing (the property says so)',
                       'an out-of-range request may be refused by subset() or at the latest by the encoder, with the library error']
    return run.finish('GEN: (message with n subsets, request) pairs - every request on a sample of messages and every message with a sample of requests; corpus multi-subset files',
                      trusted=['TLC', 'Subset.tla', 'FM94.tla'])


def replay(run, path):
    with open(path) as f:
        d = json.load(f)['replay']
    if d.get('kind') == 'subset':
        bad = apply_request(d['behaviour'], d['case'])
        print('replay: %r' % (bad,))
        if bad:
            print('VIOLATION property=C10 replay=%s' % path)
            return 1
    return 0
