"""C05 - compression is transparent: same data, same decoded result.

spec : Column.tla (one compressed column: writer and reader written separately), ColumnMC.tla
       (exhaustive model), FM94.tla with ValueMode = "all"
MC   : ColumnMC - every column of <= 4 subsets over {missing, 0..2^w-2}, w <= 3 (thorough 4), numeric /
       code / one-octet strings, every legal difference width dmin..dmin+2: DecodeAnyLegalWidth,
       WidthZeroIffAllAgree, AllMissingColumn, MissingIsAllOnesDifference, OneBitRule, SmallestIsSmallest
GEN  : the same columns as complete messages (FM94 in "all" value mode, template = one element of the
       width, compressed, 1..4 subsets, every legal width): (a) real Decoder on the specification's
       octets, (b) real Encoder (compressed) -> octets parsed by the specification's reader and by the
       real Decoder, (c) the same subsets uncompressed through Encoder and Decoder -> identical values,
       labels, links
     + full catalogue templates with 17 and 40 subsets (value classes) for wide fields and long columns
"""
from .. import tlc, fm94, catalogue
from ..common import workdir, rm_workdir, seed, MachineryError

COLUMN_INVS = ['DecodeAnyLegalWidth', 'WidthZeroIffAllAgree', 'AllMissingColumn', 'MissingIsAllOnesDifference',
               'OneBitRule', 'SmallestIsSmallest']

# template giving one field of the kind and width
def col_template(kind, w):
    if kind == 'num':
        return [201000 + 128 + (w - 7), 1001]            # 001001 is 7 bits
    if kind == 'code':
        return {1: [31031], 2: [2001], 3: [1003], 4: [2003]}[w]
    return [208001, 1015]                                # one-octet character field


def safe(label):
    return label.replace(' ', '_').replace('<=', 'le').replace('=', 'eq')


def column_key(beh):
    e = [x for x in beh['subsets'][0] if x['t'] != 'const'][-1]
    return (tuple(beh['ids']), beh['nsub'], tuple((v['miss'], tuple(v['raw'])) for v in e['v']))


def process(run, wd, label, res, transparent_once=True):
    behs = [b for b in res.iter_emitted() if not b['err']]
    results = fm94.replay_all(behs, ('decode', 'encode', 'transparent'))
    pend = []
    seen = set()
    for beh, r in zip(behs, results):
        run.traces += 1
        run.nontriv(column_key(beh) if label.startswith('columns') else fm94.structure_key(beh))
        for kind in ('bad_dec', 'bad_enc', 'bad_tr'):
            if r[kind]:
                sig, detail = r[kind]
                run.violation(('column' if label.startswith('columns') else 'walker',) + tuple(sig), detail,
                              {'kind': 'behaviour', 'behaviour': beh})
        if r['enc_bytes'] is not None:
            k = (column_key(beh), beh['ed']) if label.startswith('columns') else id(beh)
            if k not in seen:
                seen.add(k)
                pend.append((beh, r['enc_bytes']))
    if pend:
        res2, parsed = fm94.consume_run(wd, 'MC_reparse_' + safe(label), [m for _, m in pend],
                                        mversion=pend[0][0].get('mversion', 33))
        run.add_tlc(res2, 'independent reader (FM94 consume form) over the real encoder output, ' + label)
        from pybufrkit.decoder import Decoder
        for i, (beh, m) in enumerate(pend):
            bad = fm94.compare_parsed(beh, parsed[i + 1])
            if bad is None:
                try:
                    bad = fm94.compare_decoded(beh, Decoder().process(m), what='decode-of-encoded')
                except Exception as e:
                    bad = (('decode-of-encoded', 'exception', type(e).__name__, ''), repr(e))
            if bad:
                run.violation(('column',) + tuple(bad[0]), bad[1], {'kind': 'behaviour', 'behaviour': beh})
    return behs


def run(run):
    wd = workdir('c05')
    try:
        thorough = run.tier == 'thorough'
        # ---- MC: the column model
        widths = [1, 2, 3, 4] if thorough else [1, 2, 3]
        cfg = ('CONSTANTS\n Widths = {%s}\n MaxSub = 4\n Slack = 2\n StrPool = {32, 65, 255}\n Kinds = {"num", "code", "str"}\n'
               'INIT Init\nNEXT Next\n' % ', '.join(map(str, widths))) + ''.join('INVARIANT %s\n' % i for i in COLUMN_INVS)
        res = tlc.run(wd, 'MC_Column', cfg, '---- MODULE MC_Column ----\nEXTENDS ColumnMC\n====\n', coverage=False, timeout=3000)
        tlc.require_ok(res, 'ColumnMC')
        if res.violated:
            run.violation(('spec', res.violated, 'ColumnMC'), 'column model invariant violated', tlc.error_trace(res))
        run.add_tlc(res, 'ColumnMC widths %s, <=4 subsets, slack 2' % widths)
        # ---- GEN: the same columns as messages
        batches = [('columns w<=3 n<=4', [col_template(k, w) for k in ('num', 'code') for w in (1, 2, 3)] + [col_template('str', 8)], (1, 2, 3, 4))]
        if thorough:
            batches.append(('columns w=4 n<=4', [col_template('num', 4), col_template('code', 4)], (1, 2, 3, 4)))
        else:
            batches.append(('columns w=4 n<=2', [col_template('num', 4), col_template('code', 4)], (2,)))
        # WIDENED fields, every content: the all-ones pattern of the table width is an ordinary value there
        batches.append(('widened columns 3 to 4 and 5 bits', [[201129, 1004], [201130, 1004]], (2,)))
        if thorough:
            batches.append(('widened column 3 to 7 bits by 207', [[207001, 1004]], (2,)))
        # fields of 52..64 bits by value classes (0, 1, 2^(w-2)+1, 2^w-2, missing, table-width all ones), two and three subsets,
        # every seed: the columns whose range still has a difference width (many subsets of such a field have none)
        batches.append(('wide columns 52 to 64 bits', [col_template('num', w) for w in (52, 53, 54, 55, 63, 64)], (2, 3)))
        for label, templates, counts in batches:
            if label.startswith('wide'):
                res = fm94.gen_run(wd, 'MC_' + safe(label), templates, compressions=(True,), subset_counts=counts, slack=1,
                                   seeds=(0, 1, 2, 3, 4), editions=(4,) if seed() % 2 == 0 else (3,))
            else:
                res = fm94.gen_run(wd, 'MC_' + safe(label), templates,
                               compressions=(True,), subset_counts=counts, slack=2, value_mode='all',
                               editions=(4,) if seed() % 2 == 0 else (3,))
            if res.violated:
                run.violation(('spec', res.violated, label), 'FM94 invariant violated', tlc.error_trace(res))
            run.add_tlc(res, 'FM94 produce, all field contents, ' + label)
            behs = process(run, wd, label, res)
            if behs:
                b = behs[len(behs) // 2]
                run.sample({'ids': b['ids'], 'nsub': b['nsub'], 'column': [(v['miss'], fm94.pyb.bits_to_int(v['raw'])) for v in b['subsets'][0][-1]['v']],
                            'difference_width': b['subsets'][0][-1]['d']}, limit=6)
        # ---- long columns and wide fields: the whole catalogue with many subsets
        cat = catalogue.catalogue(run.tier, seed())
        rot = seed() % 5
        wide = [('many subsets plain', cat['plain'], dict(subset_counts=(17,) if not thorough else (17, 40), seeds=(rot,) if not thorough else (0, 1, 2, 3, 4), slack=1)),
                ('many subsets struct', cat['struct'], dict(subset_counts=(5,), seeds=((rot + 1) % 5,), fmax=2, slack=0)),
                ('many subsets bitmap', cat['bitmap'], dict(subset_counts=(3,), seeds=((rot + 2) % 5,), fmax=2, slack=0))]
        for label, templates, kw in wide:
            res = fm94.gen_run(wd, 'MC_' + safe(label), templates, compressions=(True,), **kw)
            if res.violated:
                run.violation(('spec', res.violated, label), 'FM94 invariant violated', tlc.error_trace(res))
            run.add_tlc(res, 'FM94 produce ' + label, exhaustive=False)
            process(run, wd, label, res)
    finally:
        rm_workdir(wd)
    run.assumptions = ['the uncompressed side of the transparency comparison goes through the real encoder and decoder; the compressed side is tied to the specification',
                       'character columns: one-octet strings over {space, letter, 0xFF} exhaustively, longer strings by value classes']
    return run.finish('ColumnMC: one state per (kind, width, column, difference width), exhaustive; GEN: one message per such column and width '
                      '(distinct = distinct column); plus catalogue templates with 17/40 subsets',
                      trusted=['TLC', 'Column.tla as the reading of FM-94 94.6.3', 'Framing.tla'])


def replay(run, path):
    import json
    with open(path) as f:
        d = json.load(f)['replay']
    beh = d['behaviour']
    rs = fm94._work((('decode', 'encode', 'transparent'), [beh]))[0]
    print('replay: %r' % ({k: v for k, v in rs.items() if k != 'enc_bytes'},))
    if rs['bad_dec'] or rs['bad_enc'] or rs['bad_tr']:
        print('VIOLATION property=C05 replay=%s' % path)
        return 1
    return 0
