"""C09 - all four output formats carry the same data and convert back to it.

spec : Wiring.tla - the hierarchical view as a function of the walker's output; TreeConserves (FM94Tree.tla):
       every flat position occurs exactly once as member, factor or associated attribute, and the flat order
       is recovered from the tree (associated fields before their owner)
MC   : TreeConserves on every behaviour of the catalogue (attributes on plain elements and on replication
       factors, chained attributes, 221 data not present, zero-count replications, strings with quotes /
       blanks / 8-bit characters, flag tables)
GEN  : for every behaviour the real decode of the specification's message is rendered in the four formats;
       the three converters must give back exactly the flat JSON; the real nested JSON must be the
       specification's tree (ids, values, repetitions, factors, attributes with their virtual flag and
       meanings); encoding from each of the four formats must give the specification's octets
       (uncompressed) / identical octets (compressed); `pybufrkit encode` in a subprocess on a sample
TRACE: the same on every sample file (tree compared with the specification's wiring of the specification's
       own parse of the file)
"""
import json
import os

from .. import tlc, fm94, catalogue, tree, pyb, corpus, stream
from ..common import workdir, rm_workdir, seed, MachineryError

EXTRA = [[1015, 1008, 2002, 8042, 20003],                       # strings (value classes hold quotes, backslash, 8-bit), flag tables
         [204003, 31021, 1015, 2002, 204000, 1015],             # associated fields on strings / flags
         [12001, 101000, 31001, 2001, 222000, 101002, 31031, 101000, 31001, 33007],   # QA on a replication factor
         [221002, 12001, 1001, 12001, 205003],
         [101000, 31001, 301011, 104000, 31001, 12001, 101000, 31000, 2001]]


def norm(x):
    """What JSON transport does to flat data: bytes -> latin-1 text, tuples -> lists."""
    if isinstance(x, bytes):
        return x.decode('latin-1')
    if isinstance(x, (list, tuple)):
        return [norm(y) for y in x]
    return x


def formats_of(msg):
    from pybufrkit.renderer import FlatTextRenderer, NestedTextRenderer, FlatJsonRenderer, NestedJsonRenderer
    from pybufrkit.utils import JSON_DUMPS_KWARGS
    return {'flat_json': FlatJsonRenderer().render(msg), 'flat_text': FlatTextRenderer().render(msg),
            'nested_text': NestedTextRenderer().render(msg),
            'nested_json': json.loads(json.dumps(NestedJsonRenderer().render(msg), **JSON_DUMPS_KWARGS))}


def back_to_flat(fmts):
    from pybufrkit.utils import flat_text_to_flat_json, nested_text_to_flat_json, nested_json_to_flat_json
    return {'flat_text': flat_text_to_flat_json(fmts['flat_text']), 'nested_text': nested_text_to_flat_json(fmts['nested_text']),
            'nested_json': nested_json_to_flat_json(fmts['nested_json'])}


def value_ok(val, sv):
    if sv[0] == 'str' and sv[1] and not any(sv[1]):
        # all NUL octets: the decoder's rendering of such a field is its own choice (b'' from a compressed column whose
        # minimum is zero); C09 asks that the FORMATS agree on it and encode alike, which is checked below
        v = val.encode('latin-1') if isinstance(val, str) else val
        return v in (b'', sv[1])
    if isinstance(val, str) and sv[0] == 'str':
        return val.encode('latin-1') == sv[1]
    return fm94.impl_matches(val, sv)


def node_matches(sn, jn, ents, path='root'):
    """Specification node sn against nested-JSON node jn.  Returns None or a description."""
    if jn.get('id') != sn['id']:
        return '%s: id %r, specification %r' % (path, jn.get('id'), sn['id'])
    here = '%s/%s' % (path, sn['id'])
    if sn['k'] == 'val':
        if 'value' not in jn:
            return '%s: no value' % here
        if not value_ok(jn['value'], ents[sn['idx'] - 1][1]):
            return '%s: value %r, specification %r' % (here, jn['value'], ents[sn['idx'] - 1][1])
        ja = jn.get('attributes', [])
        if len(ja) != len(sn['attrs']):
            return '%s: %d attributes, specification %d' % (here, len(ja), len(sn['attrs']))
        for a, b in zip(sn['attrs'], ja):
            if b.get('id') != a['id'] or not value_ok(b.get('value'), ents[a['idx'] - 1][1]):
                return '%s: attribute %r=%r, specification %r' % (here, b.get('id'), b.get('value'), a['id'])
            if ('virtual' in b) != (not a['id'].startswith('A')):
                return '%s: attribute %s virtual flag wrong' % (here, a['id'])
            jm = b.get('attributes', [])
            if [m.get('id') for m in jm] != [m['id'] for m in a['attrs']]:
                return '%s: attribute %s has meanings %r, specification %r' % (here, a['id'], [m.get('id') for m in jm], [m['id'] for m in a['attrs']])
        return None
    if 'value' in jn:
        return '%s: a value where the specification has a %s node' % (here, sn['k'])
    if sn['k'] == 'noval':
        return None if not jn.get('members') else '%s: members on a valueless node' % here
    if sn['k'] == 'seq':
        return nodes_match(sn['members'], jn.get('members', []), ents, here)
    # replications
    if sn['k'] == 'del':
        if 'factor' not in jn:
            return '%s: no factor' % here
        bad = node_matches(sn['factor'][0], jn['factor'], ents, here + '.factor')
        if bad:
            return bad
    reps = jn.get('members', [])
    n = sn['nmem']
    want = [sn['members'][i:i + n] for i in range(0, len(sn['members']), n)] if n else []
    if len(reps) != len(want):
        return '%s: %d repetitions, specification %d' % (here, len(reps), len(want))
    for r, (a, b) in enumerate(zip(want, reps)):
        bad = nodes_match(a, b, ents, '%s[%d]' % (here, r))
        if bad:
            return bad
    return None


def nodes_match(sns, jns, ents, path):
    if len(sns) != len(jns):
        return '%s: %d nodes, specification %d' % (path, len(jns), len(sns))
    for a, b in zip(sns, jns):
        bad = node_matches(a, b, ents, path)
        if bad:
            return bad
    return None


def template_data_of(nested_json):
    for sec in nested_json:
        for par in sec:
            if par['name'] == 'template_data':
                return par['value']
    return None


def check_message(msg, beh, trees, want_bytes):
    """All C09 obligations for one decoded message.  trees: specification trees per subset (or one if compressed)."""
    from pybufrkit.encoder import Encoder
    try:
        fmts = formats_of(msg)
    except Exception as e:
        return (('render', 'exception', type(e).__name__, ''), 'rendering raised %r' % (e,))
    j0 = norm(fmts['flat_json'])
    try:
        back = back_to_flat(fmts)
    except Exception as e:
        return (('convert', 'exception', type(e).__name__, ''), 'converting back to flat JSON raised %r' % (e,))
    for name in ('flat_text', 'nested_text', 'nested_json'):
        if norm(back[name]) != j0:
            a, b = norm(back[name]), j0
            where = next((i for i in range(min(len(a), len(b))) if a[i] != b[i]), -1)
            return (('convert', name, 'differs', 'section%d' % where), '%s converts back to different flat data (first differing section %d)' % (name, where))
    # the hierarchical view is the specification's tree
    subs = fm94.subsets_of(beh)
    td = template_data_of(fmts['nested_json'])
    for s, ents in enumerate(subs):
        t = trees[0] if beh['cmp'] else trees[s]
        bad = nodes_match(t, td[s], ents, 'subset%d' % s)
        if bad:
            return (('tree', 'nested-json', 'differs', ''), bad)
    # encoding from each format
    outs = {}
    for name, data in (('flat_json', json.loads(json.dumps(j0))), ('flat_text', back['flat_text']), ('nested_text', back['nested_text']),
                       ('nested_json', back['nested_json'])):
        try:
            outs[name] = Encoder().process(data).serialized_bytes
        except Exception as e:
            return (('encode-from', name, 'exception:' + type(e).__name__, ''), 'encoding from %s raised %r' % (name, e))
    if len(set(outs.values())) != 1:
        return (('encode-from', 'formats', 'bytes-differ', ''), 'the four formats encode to different bytes')
    if want_bytes is not None and outs['flat_json'] != want_bytes:
        return (('encode-from', 'formats', 'not-the-message', ''), 'encoding the renderings does not give the message back')
    return None


def check_record(rec):
    from pybufrkit.decoder import Decoder
    beh = rec['b']
    data = bytes(beh['msg'])
    try:
        msg = Decoder().process(data)
    except Exception as e:
        return (('decode', 'exception', type(e).__name__, ''), repr(e))
    return check_message(msg, beh, rec['trees'], None if beh['cmp'] else data)


def _work(recs):
    return [check_record(r) for r in recs]


def cli_encode(run, wd, recs):
    from pybufrkit.decoder import Decoder
    from pybufrkit.utils import JSON_DUMPS_KWARGS
    n = 0
    for rec in recs:
        beh = rec['b']
        data = bytes(beh['msg'])
        try:
            fm = formats_of(Decoder().process(data))
        except Exception as e:
            run.traces += 1
            run.violation(('render', 'exception', type(e).__name__, ''), 'decoding / wiring / rendering a well-formed message raised %r' % (e,), {'kind': 'behaviour', 'record': rec})
            continue
        d = os.path.join(wd, 'cli%d' % n)
        os.makedirs(d)
        n += 1
        results = {}
        for name, flags, text in (('flat_text', [], fm['flat_text']), ('nested_text', ['-a'], fm['nested_text']),
                                  ('flat_json', ['-j'], json.dumps(fm['flat_json'], **JSON_DUMPS_KWARGS)),
                                  ('nested_json', ['-j', '-a'], json.dumps(fm['nested_json']))):
            fin = os.path.join(d, name + '.in')
            fout = os.path.join(d, name + '.bufr')
            with open(fin, 'w') as f:
                f.write(text)
            rc, out, err = stream.cli(['encode'] + flags + [fin, fout])
            run.traces += 1
            if rc != 0 or not os.path.exists(fout):
                run.violation(('cli', 'encode', name, 'rc%d' % rc), 'pybufrkit encode from %s failed: %s' % (name, err[-300:]), {'kind': 'behaviour', 'record': rec})
                break
            with open(fout, 'rb') as f:
                results[name] = f.read()
        else:
            if len(set(results.values())) != 1 or (not beh['cmp'] and results['flat_text'] != data):
                run.violation(('cli', 'encode', 'bytes-differ', ''), 'command-line encoding from the four formats does not reproduce the message',
                              {'kind': 'behaviour', 'record': rec})
    return n


def corpus_part(run, wd):
    """Sample files: formats convert back, encode alike; tree = specification's wiring of its own parse."""
    from pybufrkit.decoder import Decoder
    cases, skipped = corpus.collect(run.tier)
    items, meta = [], []
    for name, m in cases:
        try:
            msg = Decoder().process(m)
        except Exception as e:
            continue
        items.append((m, corpus.key_dirs(msg.table_group_key)))
        meta.append((name, msg))
    # the specification parses the files and wires them itself (consume form + Wiring)
    groups = {}
    for i, (m, dirs) in enumerate(items):
        groups.setdefault(dirs, []).append(i)
    for gi, (dirs, idxs) in enumerate(sorted(groups.items())):
        consts = fm94.base_consts(Cases='<<' + ', '.join('[msg |-> %s]' % tlc.tla_val(list(items[i][0])) for i in idxs) + '>>',
                                  Mode='"consume"', dirs=list(dirs))
        consts.update({'PathDepth': '0', 'SliceForms': '{}'})
        name = 'MC_c09_corpus_%d' % gi
        text = tlc.mc_module(name, ['FM94Tree'], consts)
        res = tlc.run(wd, name, tlc.mc_cfg(consts, invariants=['TreeConserves', 'EmitTree']), text, coverage=False, lazy_emitted=True, timeout=3000)
        tlc.require_ok(res, name)
        if res.violated:
            run.violation(('spec', res.violated, 'corpus'), 'TreeConserves violated on a sample file', tlc.error_trace(res))
        run.add_tlc(res, 'FM94Tree consume form over sample messages', exhaustive=False)
        for rec in res.iter_emitted():
            i = idxs[rec['b']['tid'] - 1]
            name_, msg = meta[i]
            run.traces += 1
            bad = check_message(msg, rec['b'], rec['trees'], None)
            if bad:
                run.violation(('corpus',) + tuple(bad[0]), '%s: %s' % (name_, bad[1]), {'kind': 'corpus', 'name': name_})
            else:
                run.nontriv(('corpus', name_))
    run.notes['corpus_messages'] = len(items)


def run(run):
    import multiprocessing as mp
    wd = workdir('c09')
    try:
        thorough = run.tier == 'thorough'
        cat = catalogue.catalogue(run.tier, seed())
        r = seed() % 5
        plan = [('extra', EXTRA, dict(subset_counts=(1, 2), fmax=2, seeds=(r, (r + 2) % 5))),
                ('struct', cat['struct'], dict(subset_counts=(1, 2) if thorough else (1,), fmax=2, seeds=((r + 1) % 5,))),
                ('bitmap', cat['bitmap'], dict(subset_counts=(1, 2) if thorough else (2,), fmax=2, seeds=((r + 2) % 5,))),
                ('plain', cat['plain'], dict(subset_counts=(2,), seeds=((r + 3) % 5,), compressions=(False, True) if thorough else (r % 2 == 0,))),
                # character fields of NUL octets in every subset of a compressed message (position 4 carries the same class in
                # all subsets; with value seed 3 - seven string classes - that class is the "blank" one, here NUL): decoded as the empty string
                ('nul strings', [[12001, 2001, 1001, 1015, 1008], [1001, 1001, 1001, 1008]], dict(subset_counts=(2, 3), seeds=(1, 3), compressions=(True,), nul=True)),      # seed 3: (4 + 3) % 7 = 0, the NUL class, at position 4
                # templates that END inside an operator construct (204 not cancelled, 221 not used up, a bitmap still being
                # counted): what wiring keeps from one subset must not reach the next
                ('open', cat['open'], dict(subset_counts=(2,), fmax=1 if not thorough else 2, seeds=((r + 2) % 5,), compressions=(False,))),
                ('dnp', cat['dnp'], dict(subset_counts=(1, 2), fmax=2, seeds=((r + 3) % 5,))),
                ('assoc2', cat['assoc2'], dict(subset_counts=(1, 2), fmax=2, seeds=((r + 4) % 5,), nested_assoc=True)),
                ('rnd_plain', cat['rnd_plain'], dict(subset_counts=(1,), seeds=((r + 4) % 5,), compressions=(r % 2 == 1,))),
                ('rnd_struct', cat['rnd_struct'], dict(subset_counts=(2,) if thorough else (1,), fmax=2, seeds=(r,))),
                ('rnd_bitmap', cat['rnd_bitmap'], dict(subset_counts=(2,), fmax=2, seeds=((r + 1) % 5,), compressions=(False, True) if thorough else (False,)))]
        cli_pick = []
        for label, templates, kw in plan:
            res = tree.gen_run(wd, 'MC_c09_' + label.replace(' ', '_'), templates, slices=(), path_depth=0, **kw)
            if res.violated:
                run.violation(('spec', res.violated, label), 'specification property %s violated' % res.violated, tlc.error_trace(res))
            run.add_tlc(res, 'FM94Tree (hierarchical view) ' + label)
            recs = list(res.iter_emitted())
            chunks = [recs[i:i + 20] for i in range(0, len(recs), 20)]
            with mp.get_context('fork').Pool(14, initializer=fm94._init_worker) as pool:
                outs = [x for c in pool.map(_work, chunks) for x in c]
            for rec, bad in zip(recs, outs):
                run.traces += 1
                run.nontriv(fm94.structure_key(rec['b']))
                if bad:
                    run.violation(bad[0], bad[1], {'kind': 'behaviour', 'record': rec})
            if recs:
                run.sample({'ids': recs[len(recs) // 2]['b']['ids'], 'tree_subset0': json.loads(json.dumps(recs[len(recs) // 2]['trees'][0]))[:3]}, limit=2)
                cli_pick += recs[r::max(1, len(recs) // (6 if thorough else 2))][:6 if thorough else 2]
        run.notes['cli_encode_cases'] = cli_encode(run, wd, cli_pick)
        corpus_part(run, wd)
        # the command line: `decode` in every combination of -j / -a / -m over files of several messages (Cmd.tla) - the format is
        # decided by the two flags alone and every message of the file is rendered
        from .. import cmd
        cmd.run_commands(run, wd, ['decode', 'encode'], seed(), stream_opts=False)
    finally:
        rm_workdir(wd)
    run.assumptions = ['the character-level layout of the two text formats (column 81, repr quoting) is exercised by these replays but not itself modelled in TLA+; the specification fixes the tree and the flat data',
                       'JSON transport: bytes are latin-1 text, tuples are lists']
    return run.finish('GEN: one case per behaviour (four renderings, three converters, nested JSON against the specification tree, four encodings); TRACE: sample files',
                      trusted=['TLC', 'Wiring.tla', 'FM94.tla'])


def replay(run, path):
    with open(path) as f:
        d = json.load(f)['replay']
    if d.get('kind') == 'behaviour':
        bad = check_record(d['record'])
        print('replay: %r' % (bad,))
        if bad:
            print('VIOLATION property=C09 replay=%s' % path)
            return 1
    return 0
