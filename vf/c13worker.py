"""Runs operation histories against pybufrkit in ONE process and reports each step's observable result.
Invoked as a subprocess by vf/props/c13.py:  python -m vf.c13worker <job.json> <out.json>"""
import json
import sys


def observe(msg):
    from pybufrkit.renderer import FlatTextRenderer, NestedTextRenderer, FlatJsonRenderer, NestedJsonRenderer
    from pybufrkit.utils import JSON_DUMPS_KWARGS
    td = msg.template_data.value
    n = msg.n_subsets.value
    return {'values': json.loads(json.dumps(td.decoded_values_all_subsets, **JSON_DUMPS_KWARGS)),
            'labels': [[str(d) for d in td.decoded_descriptors_all_subsets[i]] for i in range(n)],
            'links': [sorted((int(a), int(b)) for a, b in td.bitmap_links_all_subsets[i].items()) for i in range(n)]}


def renderings(msg):
    from pybufrkit.renderer import FlatTextRenderer, NestedTextRenderer, FlatJsonRenderer, NestedJsonRenderer
    from pybufrkit.utils import JSON_DUMPS_KWARGS
    return {'flat_text': FlatTextRenderer().render(msg), 'nested_text': NestedTextRenderer().render(msg),
            'flat_json': json.dumps(FlatJsonRenderer().render(msg), **JSON_DUMPS_KWARGS),
            'nested_json': json.dumps(NestedJsonRenderer().render(msg), **JSON_DUMPS_KWARGS)}


def queries(msg, exprs):
    from pybufrkit.dataquery import NodePathParser, DataQuerent
    from pybufrkit.utils import JSON_DUMPS_KWARGS
    out = {}
    for e in exprs:
        try:
            out[e] = json.loads(json.dumps(DataQuerent(NodePathParser()).query(msg, e).all_values(), **JSON_DUMPS_KWARGS))
        except Exception as ex:
            out[e] = 'ERR ' + type(ex).__name__
    return out


def main():
    job = json.load(open(sys.argv[1]))
    import pybufrkit.tables as tables
    if job.get('tg_limit'):
        tables.MAXIMUM_NUMBER_OF_CACHED_TABLE_GROUPS = job['tg_limit']
    from pybufrkit.decoder import Decoder
    from pybufrkit.encoder import Encoder
    pool = {int(k): v for k, v in job['pool'].items()}
    cm = job.get('comp_max', -1)
    results = []
    for hist in job['histories']:
        dec = Decoder(compiled_template_cache_max=None if cm < 0 else cm)
        enc = Encoder(compiled_template_cache_max=None if cm < 0 else cm)
        objs = {}
        steps = []
        for st in hist:
            op, m = st['op'], st['m']
            p = pool[m]
            try:
                if op in ('decode', 'decode_fails'):
                    root = p.get('root')
                    d = dec if not root else Decoder(tables_root_dir=root, compiled_template_cache_max=None if cm < 0 else cm)
                    msg = d.process(bytes(p['octets']))
                    objs[m] = msg
                    res = observe(msg)
                elif op == 'info':
                    from pybufrkit.renderer import FlatTextRenderer
                    mi = dec.process(bytes(p['octets']), info_only=True)
                    res = {'info': FlatTextRenderer().render(mi), 'has_data': getattr(mi, '_template_data', None) is not None}
                elif op == 'decode_ive':
                    res = observe(dec.process(bytes(p['octets']), ignore_value_expectation=True))
                elif op == 'encode':
                    res = {'bytes': list(enc.process(p['flat_json']).serialized_bytes)}
                elif op == 'query':
                    res = queries(objs[m], p['queries'])
                elif op == 'render':
                    res = renderings(objs[m])
                elif op == 'rewire':
                    objs[m].wire()
                    res = dict(observe(objs[m]), nested=renderings(objs[m])['nested_json'])
                else:
                    res = {'unknown': op}
            except Exception as e:
                res = {'error': type(e).__name__}
            steps.append(res)
        results.append(steps)
    json.dump(results, open(sys.argv[2], 'w'))


if __name__ == '__main__':
    main()
