"""./check --setup : offline, idempotent.  Parses every specification with SANY and runs the
binding self-tests (a corrupted behaviour / trace must be rejected by the conformance step)."""
import importlib
import os
import sys

from . import tlc
from .common import SPEC, EVIDENCE, REPLAYS, WORK, ensure_repo_import


def main():
    for d in (EVIDENCE, REPLAYS, WORK):
        os.makedirs(d, exist_ok=True)
    bad = 0
    for fn in sorted(os.listdir(SPEC)):
        if fn.endswith('.tla'):
            ok, out = tlc.sany(os.path.join(SPEC, fn))
            print('sany %-22s %s' % (fn, 'ok' if ok else 'FAILED'))
            if not ok:
                print(out[-2000:])
                bad += 1
    ensure_repo_import()
    from . import selftest
    bad += selftest.main()
    print('setup %s' % ('ok' if not bad else 'FAILED'))
    return 0 if not bad else 2
