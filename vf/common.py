"""Shared plumbing: paths, seeds, evidence, findings, violation reporting.

Everything here is stdlib-only and runs under /venv/bin/python (which has the
repository installed in editable mode pointing at /repo).
"""
import json
import os
import shutil
import sys
import time

VERIF = os.path.dirname(os.path.dirname(os.path.abspath(__file__)))
REPO = os.environ.get('VERIF_REPO', '/repo')
SPEC = os.path.join(VERIF, 'spec')
# the three output locations can be redirected (tools/matrix.py runs the checks against patched scratch
# worktrees in parallel and must not overwrite the evidence of the unchanged tree)
EVIDENCE = os.environ.get('VERIF_EVIDENCE', os.path.join(VERIF, 'evidence'))
REPLAYS = os.environ.get('VERIF_REPLAYS', os.path.join(VERIF, 'replays'))
WORK = os.environ.get('VERIF_WORK', os.path.join(VERIF, '.work'))
GUARD = 'YWANGD_PYBUFRKIT_VERIF'
PY = '/venv/bin/python'


class MachineryError(Exception):
    """The verification machinery itself failed (exit 2) - never a verdict."""


def seed():
    try:
        return int(os.environ.get('VERIF_SEED', '0'))
    except ValueError:
        return 0


def ensure_repo_import():
    """Import pybufrkit from /repo's working tree (with hooks enabled)."""
    os.environ[GUARD] = '1'
    os.environ.setdefault('PYTHONHASHSEED', '0')
    if REPO not in sys.path:
        sys.path.insert(0, REPO)
    import pybufrkit
    if not os.path.abspath(pybufrkit.__file__).startswith(os.path.abspath(REPO) + os.sep):
        raise MachineryError('pybufrkit imported from %s, not from %s' % (pybufrkit.__file__, REPO))
    return pybufrkit


def _purge_stale_workdirs():
    """Scratch directories of runs that were killed (their process is gone) are removed: a TLC state queue
    left behind by an interrupted run can be many gigabytes."""
    if not os.path.isdir(WORK):
        return
    for fn in os.listdir(WORK):
        pid = fn.rsplit('-', 1)[-1]
        if pid.isdigit() and not os.path.exists('/proc/%s' % pid):
            shutil.rmtree(os.path.join(WORK, fn), ignore_errors=True)


def workdir(name):
    _purge_stale_workdirs()
    d = os.path.join(WORK, '%s-%d' % (name, os.getpid()))
    if os.path.isdir(d):
        shutil.rmtree(d)
    os.makedirs(d)
    return d


def rm_workdir(d):
    if os.environ.get('VERIF_KEEP_WORK'):
        return
    shutil.rmtree(d, ignore_errors=True)


class Findings(object):
    """KNOWN_FINDINGS.json is read-only at run time."""

    def __init__(self):
        self.known = []
        self.fixed = []
        path = os.path.join(VERIF, 'KNOWN_FINDINGS.json')
        if os.path.exists(path):
            with open(path) as f:
                d = json.load(f)
            self.known = d.get('known', [])
            self.fixed = d.get('fixed', [])

    def match(self, prop, signature):
        for k in self.known:
            if k['property'] == prop and list(k['signature']) == list(signature):
                return k
        return None


class Run(object):
    """One invocation of one property's check.  Collects counts, samples,
    violations and writes the evidence file."""

    def __init__(self, prop, tier):
        self.prop = prop
        self.tier = tier
        self.t0 = time.time()
        self.findings = Findings()
        self.states = 0
        self.transitions = 0
        self.traces = 0
        self.evaluations = 0
        self.samples = []
        self.tlc_runs = []
        self.notes = {}
        self.assumptions = []
        self.violations = []   # (signature, detail, replay path)
        self.known_seen = {}
        self.viol_sigs = {}
        self.exhaustive = True
        self.checker_cmds = []
        self.nontrivial = set()

    # -- accounting -------------------------------------------------------
    def add_tlc(self, res, label=None, exhaustive=True):
        self.states += res.distinct
        self.transitions += res.generated
        self.tlc_runs.append({
            'label': label or res.module, 'module': res.module, 'cfg': res.cfg_text_summary,
            'states_generated': res.generated, 'distinct_states': res.distinct,
            'depth': res.depth, 'wall_s': round(res.wall, 2), 'exhaustive': exhaustive,
            'mode': res.mode, 'coverage': res.coverage_summary(),
        })
        self.checker_cmds.append(res.cmdline)
        if not exhaustive:
            self.exhaustive = False

    def sample(self, s, limit=6):
        if len(self.samples) < limit:
            self.samples.append(s)

    def nontriv(self, key):
        self.nontrivial.add(key)

    # -- verdicts ---------------------------------------------------------
    def violation(self, signature, detail, replay_obj):
        """signature: tuple of strings identifying the failing case."""
        signature = [str(x) for x in signature]
        k = self.findings.match(self.prop, signature)
        if k is not None:
            key = tuple(signature)
            if key not in self.known_seen:
                self.known_seen[key] = k
                print('KNOWN-FINDING: property=%s %s' % (self.prop, k['what']))
            return False
        key = tuple(signature)
        if key in self.viol_sigs:
            self.viol_sigs[key] += 1
            return True
        self.viol_sigs[key] = 1
        if len(self.violations) >= 40:
            self.violations.append((signature, None, None))
            return True
        os.makedirs(REPLAYS, exist_ok=True)
        path = os.path.join(REPLAYS, '%s-%03d.json' % (self.prop, len(self.violations)))
        with open(path, 'w') as f:
            json.dump({'property': self.prop, 'signature': signature, 'detail': detail,
                       'replay': replay_obj}, f, indent=1, default=repr)
        self.violations.append((signature, detail, path))
        print('VIOLATION property=%s replay=%s' % (self.prop, path))
        print('  signature=%s' % '|'.join(signature))
        print('  detail=%s' % (str(detail)[:600]))
        sys.stdout.flush()
        return True

    # -- evidence ---------------------------------------------------------
    def finish(self, rule, trusted=None):
        os.makedirs(EVIDENCE, exist_ok=True)
        cov = {
            'states': int(self.states),
            'transitions': int(self.transitions),
            'traces_validated_against_impl': int(self.traces),
            'samples': self.samples or ['(none)'],
            'evaluations': int(max(self.evaluations, self.traces)),
            'distinct_nontrivial': len(self.nontrivial),
            'rule': rule,
            'checker_cmd': ' ;; '.join(self.checker_cmds[:4]),
            'exhaustive': bool(self.exhaustive),
            'tlc_runs': self.tlc_runs,
            'trusted_base': trusted or [],
            'known_findings_seen': ['|'.join(k) for k in self.known_seen],
            'violation_signatures': {'|'.join(k): n for k, n in self.viol_sigs.items()},
        }
        cov.update(self.notes)
        ev = {
            'property_id': self.prop,
            'tier': self.tier,
            'seed': seed(),
            'level': 'model_checking',
            'coverage': cov,
            'assumptions': self.assumptions,
            'wall_s': round(time.time() - self.t0, 2),
            'violations': len(self.violations),
        }
        with open(os.path.join(EVIDENCE, '%s.json' % self.prop), 'w') as f:
            json.dump(ev, f, indent=1, default=repr)
        print('%s tier=%s states=%d transitions=%d replays/traces=%d violations=%d known=%d wall=%.1fs' % (
            self.prop, self.tier, self.states, self.transitions, self.traces,
            len(self.violations), len(self.known_seen), time.time() - self.t0))
        return 1 if self.violations else 0
