"""Shared by C09 and C16: FM94 behaviours together with the specification's hierarchical view
(Wiring.tla) and the evaluation of every path that exists in it (Query.tla), emitted by FM94Tree.tla."""
from . import tlc, fm94, pyb

SLICES = [
    {'kind': 'int', 'i': 0, 'a': 0, 'b': 0, 'c': 0}, {'kind': 'int', 'i': -1, 'a': 0, 'b': 0, 'c': 0},
    {'kind': 'int', 'i': 1, 'a': 0, 'b': 0, 'c': 0},
    {'kind': 'slice', 'i': 0, 'a': 0, 'b': 1, 'c': 99}, {'kind': 'slice', 'i': 0, 'a': 99, 'b': 99, 'c': 2},
    {'kind': 'slice', 'i': 0, 'a': 1, 'b': 99, 'c': 99}, {'kind': 'slice', 'i': 0, 'a': 99, 'b': 99, 'c': -1},
    {'kind': 'slice', 'i': 0, 'a': -2, 'b': 99, 'c': 99},
    # bounds of different sign: where the start counts from the end and the stop from the front (or the other way round), the
    # selection depends on the TOTAL number of matches - it cannot be decided from the first `stop` of them
    {'kind': 'slice', 'i': 0, 'a': -2, 'b': 2, 'c': 99}, {'kind': 'slice', 'i': 0, 'a': -1, 'b': 1, 'c': 99},
    {'kind': 'slice', 'i': 0, 'a': 1, 'b': -1, 'c': 99}, {'kind': 'slice', 'i': 0, 'a': -3, 'b': -1, 'c': 99},
    {'kind': 'slice', 'i': 0, 'a': 2, 'b': 0, 'c': -1}, {'kind': 'slice', 'i': 0, 'a': 0, 'b': -1, 'c': 2},
    {'kind': 'slice', 'i': 0, 'a': -1, 'b': -3, 'c': -1},
]


def gen_run(wd, name, templates, path_depth=4, slices=(), **kw):
    consts_extra = {'PathDepth': str(path_depth),
                    'SliceForms': '{' + ', '.join(tlc.tla_val(s) for s in slices) + '}'}
    # same construction as fm94.gen_run, with the FM94Tree module on top
    from .fm94 import base_consts, table_dirs, tla_set
    mversion = kw.get('mversion', 33)
    local = kw.get('local')
    consts = base_consts(
        Cases='<<' + ', '.join('[ids |-> %s]' % tlc.tla_val(list(t)) for t in templates) + '>>',
        Editions=tla_set(kw.get('editions', (4,))), Compressions=tla_set(kw.get('compressions', (False, True))),
        SubsetCounts=tla_set(kw.get('subset_counts', (1, 2))), Fmax=str(kw.get('fmax', 2)), Seeds=tla_set(kw.get('seeds', (0,))),
        Slack='0', Mode='"produce"', ResetPolicy='"fm94"', ValueMode='"classes"',
        dirs=table_dirs(mversion, local), mversion=mversion, local=local, NulStrings='TRUE' if kw.get('nul') else 'FALSE', NestedAssoc='TRUE' if kw.get('nested_assoc') else 'FALSE')
    consts.update(consts_extra)
    text = tlc.mc_module(name, ['FM94Tree'], consts)
    cfg = tlc.mc_cfg(consts, invariants=['TypeOK', 'LinksPointBack', 'TreeConserves', 'EmitTree'])
    res = tlc.run(wd, name, cfg, text, workers=16, lazy_emitted=True, coverage=False, timeout=kw.get('timeout', 3000))
    tlc.require_ok(res, name)
    return res


def slice_str(sl):
    if sl['kind'] == 'all':
        return ''
    if sl['kind'] == 'int':
        return '[%d]' % sl['i']
    f = lambda x: '' if x == 99 else str(x)
    return '[%s:%s:%s]' % (f(sl['a']), f(sl['b']), f(sl['c'])) if sl['c'] != 99 else '[%s:%s]' % (f(sl['a']), f(sl['b']))


def path_str(comps):
    return ''.join(c['sep'] + c['id'] + slice_str(c['sl']) for c in comps)


def untoken(tokens):
    """Bracket tokens -> nested list of flat positions (1-based) / error markers."""
    stack = [[]]
    for t in tokens:
        if t == -2:
            new = []
            stack[-1].append(new)
            stack.append(new)
        elif t == -3:
            stack.pop()
        else:
            stack[-1].append(t)
    return stack[0][0] if stack[0] else []


def has_error(tokens):
    return any(t in (-8, -9) for t in tokens)


def tree_ids(tree):
    out = set()

    def walk(n):
        out.add(n['id'])
        for m in n['members'] + n['factor'] + n['attrs']:
            walk(m)
    for n in tree:
        walk(n)
    return out
