"""Template catalogue: descriptor lists inside the well-formed scope (DESIGN 2.6), grouped by the
amount of structure TLC has to choose (which decides the constants of the run).

Only *shapes* are chosen here; element attributes, kinds and expansion come from the table files
read by the specification itself.  Groups:
  plain   - no choice points (elements, operators, fixed replication, sequences)
  struct  - delayed replication (factor choices)
  bitmap  - data present bitmaps (bit choices) with markers / quality information
"""
import os
import random

# Table B entries that exist with the same width/scale/reference in every bundled version >= 13
NUM = [1001, 1002, 12001, 11003, 10004, 13011, 7001, 12101, 5001, 6001, 2153, 24011]
NUM_SMALL = [1001, 12001, 11003, 10004, 13011, 7001]
CODE = [2001, 1003, 2003, 20003, 2002, 8042, 31021, 8023]
STR = [1008, 1011, 1015, 25061]
ONEBIT = [31031]


def plain_templates():
    t = []
    for e in NUM + CODE + STR:
        t.append([e])
    t.append([31031, 31031, 2001])
    # eight fields of one kind in a row: the relation between the subsets of a column rotates with the position (FM94.ClsOf),
    # so every kind of column - equal, all different, equal-except-missing, stride 2 - occurs for every kind of field
    t.append([1015, 1008, 1011, 25061, 1015, 1008, 1011, 25061])
    t.append([12001, 11003, 7001, 10004, 13011, 12101, 1002, 5001])
    t.append([2001, 1003, 2003, 20003, 2002, 8042, 31021, 8023])
    t.append([31000, 1001])                       # 1-bit numeric outside any replication
    t.append([1001, 2001, 1015, 12001, 8042, 11003])
    t.append([5001, 6001, 7001, 10004, 2153])
    t.append([1041, 24011, 1002])                 # 31- and 32-bit numerics
    # 201: widths 1..64, code tables and strings untouched, cancellation
    for y, es in [(129, [12001, 2001, 1015]), (132, [11003, 12101]), (120, [12001, 7001]), (117, [12001]),
                  (122, [1001, 1002]), (185, [1001]), (140, [24011]), (150, [5001, 6001]), (123, [1002, 8042])]:
        t.append([201000 + y] + es + [201000, es[0]])
    t.append([201130, 12001, 201131, 12001, 201000, 12001])           # re-definition without cancelling
    t.append([1001, 201135, 12001])                                   # ends inside the bracket
    # 202
    for y, es in [(129, [12001, 2001]), (126, [12101, 10004]), (130, [7001, 1015, 11003]), (120, [5001])]:
        t.append([202000 + y] + es + [202000, es[0]])
    t.append([201132, 202129, 12001, 11003, 202000, 12001, 201000, 12001])
    # 207
    for y, es in [(1, [12001, 11003, 2001]), (2, [7001, 13011, 1015]), (3, [10004, 12101]), (1, [5001, 6001])]:
        t.append([207000 + y] + es + [207000, es[0]])
    t.append([207002, 201130, 202129, 11003, 201000, 202000, 207000, 11003])
    # 203
    t.append([203012, 12001, 11003, 203255, 12001, 11003, 1001, 203000, 12001, 11003])
    t.append([203008, 7001, 203255, 7001, 207001, 7001, 207000, 203000, 7001])
    t.append([203016, 10004, 13011, 203255, 102002, 10004, 13011])
    t.append([203003, 1001, 203255, 1001])                            # small sign-magnitude field
    t.append([203010, 12001, 203255, 201130, 12001, 201000])
    # 204 (not nested, not across class 31 only)
    t.append([204007, 31021, 12001, 1015, 2001, 204000, 12001])
    t.append([204001, 31021, 1001, 12001, 204000])
    t.append([204012, 31021, 102002, 11003, 2003, 204000, 11003])
    t.append([204004, 31021, 201130, 12001, 201000, 204000])
    # 205
    t.append([205003, 1001])
    t.append([12001, 205010, 205001, 2001])
    # 206
    t.append([206008, 63255, 1001])
    t.append([206001, 63250, 206020, 63251, 2001])
    t.append([206012, 12101, 12101, 2001])                 # the skipped descriptor is one that Table B defines: still a local field (S12101)
    t.append([1001, 206007, 1001, 206004, 2001, 2001])
    # 208
    t.append([208003, 1015, 1008, 208000, 1015])
    t.append([208025, 1008, 2001, 12001, 208000])
    t.append([208001, 1011])
    # 221
    t.append([221002, 12001, 1001, 12001])
    t.append([221004, 4001, 12001, 33007, 5001, 12001])
    t.append([221001, 2001, 2001])
    t.append([221003, 12001, 31031, 11003, 11003])
    # fixed replication and nesting
    t.append([102003, 12001, 2001])
    t.append([103002, 1001, 101002, 12001, 1015])
    t.append([101004, 31031])
    t.append([102002, 201130, 12001, 201000])                        # bracket opened and closed inside the loop
    t.append([201129, 102002, 12001, 2001, 201000, 12001])            # bracket around the loop
    t.append([105002, 1001, 103002, 12001, 101002, 2001])             # depth 3: every level counts what it contains
    # sequences
    for s in [301001, 301011, 301012, 301021, 301023, 301004, 301022]:
        t.append([s])
    t.append([301011, 301012, 301021, 12001])
    t.append([102002, 301011, 12001])
    t.append([201130, 301021, 201000, 301021])
    t.append([207001, 301021, 7001, 207000])
    t.append([301001, 206009, 63255, 301011])
    return t


def struct_templates():
    t = []
    t.append([101000, 31001, 12001])
    t.append([102000, 31001, 12001, 1015])
    t.append([101000, 31002, 2001])
    t.append([101000, 31000, 1001])
    t.append([105000, 31001, 1001, 102000, 31001, 12001, 1015])       # inner factor counted among the X
    t.append([1001, 103000, 31001, 12001, 101002, 2001, 11003])
    t.append([103000, 31001, 201130, 12001, 201000, 1001])
    t.append([101000, 31001, 12001, 201131, 12001, 201000, 101000, 31001, 12001])
    t.append([101000, 31001, 301011, 12001])
    t.append([108000, 31001, 1001, 105000, 31000, 12001, 102000, 31001, 2001, 1015, 11003])   # depth 3
    t.append([203010, 12001, 203255, 101000, 31001, 12001, 203000, 12001])
    t.append([204006, 31021, 101000, 31001, 12001, 204000, 12001])
    t.append([101000, 31001, 205004])
    t.append([102000, 31001, 206008, 63255])
    t.append([101000, 31001, 221001, 12001, 101000, 31001, 1001])
    t.append([208002, 101000, 31001, 1015, 208000])
    t.append([102000, 31002, 207001, 11003])                         # bracket left open inside the loop body
    t.append([105000, 31001, 103000, 31001, 101000, 31000, 2001])     # every level counts the inner factor and body
    t.append([301011, 101000, 31001, 301012, 101000, 31001, 301021])
    return t


def bitmap_templates():
    t = []
    # quality information: count derived from the bitmap
    t.append([12001, 12002, 222000, 101002, 31031, 101000, 31001, 33007])
    t.append([1001, 2001, 1015, 222000, 101003, 31031, 1031, 1032, 101000, 31001, 33007])
    t.append([12001, 11003, 222000, 236000, 101002, 31031, 101000, 31001, 33007, 222000, 237000, 101000, 31001, 33003])
    # substituted / first order / difference / replaced
    t.append([1001, 12001, 11003, 224000, 236000, 101003, 31031, 8023, 101000, 31001, 224255,
              225000, 237000, 8024, 101000, 31001, 225255])
    t.append([12001, 7001, 223000, 101002, 31031, 101000, 31001, 223255])
    t.append([12101, 2001, 232000, 101002, 31031, 101000, 31001, 232255])
    t.append([11003, 1015, 10004, 225000, 101003, 31031, 8024, 101000, 31001, 225255])
    # cancellation and redefinition
    t.append([12001, 11003, 224000, 236000, 101002, 31031, 8023, 101000, 31001, 224255, 237255,
              224000, 101002, 31031, 8023, 101000, 31001, 224255])
    t.append([12001, 11003, 223000, 101002, 31031, 101000, 31001, 223255, 235000,
              7001, 223000, 101001, 31031, 101000, 31001, 223255])
    # bitmap by delayed replication (length chosen), back references across a replication and a sequence
    t.append([102002, 12001, 301011, 224000, 101004, 31031, 8023, 101000, 31001, 224255])
    t.append([101000, 31001, 12001, 222000, 101000, 31001, 31031, 101000, 31001, 33007])
    # operators in force at the marker
    t.append([12001, 11003, 224000, 101002, 31031, 8023, 103000, 31001, 201130, 224255, 201000])
    t.append([1015, 1008, 223000, 101002, 31031, 208002, 101000, 31001, 223255, 208000])
    t.append([12001, 7001, 225000, 101002, 31031, 8024, 103000, 31001, 207001, 225255, 207000])
    # bitmap shorter than the element run: only the last N elements are referenced
    t.append([1001, 1002, 12001, 11003, 224000, 101002, 31031, 8023, 101000, 31001, 224255])
    # associated field on the referenced element (204 closed before the operator)
    t.append([204004, 31021, 12001, 11003, 204000, 224000, 101002, 31031, 8023, 101000, 31001, 224255])
    # a bitmap defined INSIDE a replication, once per repetition
    t.append([106000, 31001, 12101, 222000, 101001, 31031, 33007, 235000])
    t.append([105002, 12001, 223000, 101001, 31031, 223255, 235000])
    # two single markers, the first under an operator that is closed before the second (what the compiler captures at one
    # marker must not reach the next)
    t.append([12101, 12101, 224000, 236000, 101002, 31031, 8023, 201130, 224255, 201000, 224255, 1002])
    t.append([1015, 1008, 223000, 101002, 31031, 208002, 223255, 208000, 223255])
    t.append([12001, 7001, 225000, 101002, 31031, 8024, 207001, 225255, 207000, 225255])
    t.append([11003, 12101, 232000, 101002, 31031, 202129, 232255, 202000, 232255])
    # a delayed replication in front of a window of DIFFERENT elements: the same flat position holds another element
    # from one subset to the next
    t.append([101000, 31001, 12001, 10004, 7001, 223000, 101002, 31031, 101000, 31001, 223255])
    t.append([101000, 31001, 1001, 12001, 2001, 11003, 224000, 101003, 31031, 8023, 101000, 31001, 224255])
    # three chained operators sharing one bitmap
    t.append([12001, 13011, 222000, 236000, 101002, 31031, 101000, 31001, 33007,
              224000, 237000, 8023, 101000, 31001, 224255, 225000, 237000, 8024, 101000, 31001, 225255])
    return t


def open_templates():
    """Templates that END inside an operator construct (or leave bitmap / back-reference state behind):
    whatever a subset leaves in the registers must not reach the next subset (C06)."""
    t = []
    t.append([12001, 201130, 12001])                      # 201 still in force at the end
    t.append([12001, 11003, 202129, 12001])               # 202
    t.append([11003, 207001, 11003])                      # 207
    t.append([1015, 208002, 1015])                        # 208
    t.append([12001, 203012, 12001])                      # ends while defining reference values
    t.append([12001, 203012, 12001, 203255, 12001])       # new reference value left defined
    t.append([12001, 204006, 31021, 12001])               # 204
    t.append([12001, 1001, 221002, 12001])                # 221 with one descriptor still to go
    t.append([12001, 206010])                             # 206 pending
    t.append([12001, 2001, 222000, 101002, 31031])        # bitmap definition still counting
    t.append([12001, 2001, 222000, 101002, 31031, 101000, 31001, 33007])   # QA processing, back references left
    t.append([101000, 31001, 12001, 223000, 101000, 31001, 31031, 101000, 31001, 223255])  # window depends on the subset
    t.append([12001, 11003, 224000, 236000, 101002, 31031, 8023, 101000, 31001, 224255])   # bitmap kept for reuse
    t.append([101000, 31001, 12001, 222000, 101000, 31001, 31031, 101000, 31001, 33007])
    t.append([12001, 11003, 223000, 101002, 31031, 101000, 31001, 223255, 235000, 7001])
    t.append([101000, 31001, 12001, 10004, 7001, 223000, 101002, 31031, 101000, 31001, 223255])     # window slides over different elements
    t.append([101000, 31001, 1001, 12001, 11003, 225000, 101002, 31031, 8024, 101000, 31001, 225255])
    # the same with a bitmap kept for reuse: equal bits in two subsets designate different positions when the counts differ
    t.append([101000, 31001, 12001, 10004, 7001, 223000, 236000, 101002, 31031, 101000, 31001, 223255])
    t.append([102000, 31001, 1001, 2001, 12001, 11003, 222000, 236000, 101002, 31031, 101000, 31001, 33007, 224000, 237000, 8023, 101000, 31001, 224255])
    # two replications of different elements in front of the bitmap: with the counts swapped (2,1 / 1,2) the operator sits at the
    # SAME flat position in both subsets and the bitmap has the same length, but the window holds different elements
    t.append([101000, 31001, 12001, 101000, 31001, 10004, 223000, 101002, 31031, 101000, 31001, 223255])
    t.append([101000, 31001, 12001, 101000, 31001, 1015, 222000, 101002, 31031, 101000, 31001, 33007])
    t.append([12001, 204005, 31021, 101000, 31001, 11003])          # 204 never cancelled, count of the last replication varies
    t.append([12001, 221003, 101000, 31001, 10004])                 # 221 not used up when the replication has no repetition
    return t


import json

from .common import REPO


def table_d_sample(tier, sd, nquick=25):
    """One-descriptor templates: Table D sequences of versions >= 19 (shaping by the table file only)."""
    rnd = random.Random(sd * 7 + 8)
    versions = [33] if tier == 'quick' else [19, 25, 33, 41]
    out = {}
    for mv in versions:
        with open(os.path.join(os.path.join(REPO, 'pybufrkit', 'tables', '0', '0_0', str(mv)), 'TableD.json')) as f:
            td = json.load(f)
        with open(os.path.join(os.path.join(REPO, 'pybufrkit', 'tables', '0', '0_0', str(mv)), 'TableB.json')) as f:
            tb = json.load(f)

        def expand(key, depth=0):
            ids = []
            for m in td[key][1]:
                if m.startswith('3') and m in td and depth < 10:
                    ids += expand(m, depth + 1)
                else:
                    ids.append(m)
            return ids
        def length(flat, i, end, clip=True):
            """number of data fields when every delayed replication takes one repetition (clip: an inner replication ends where
            the enclosing one ends - or takes its X descriptors regardless; the larger of the two readings is bounded)"""
            total = 0
            while i < end:
                d = flat[i]
                if d.startswith('1'):
                    x, y = int(d[1:3]), int(d[3:])
                    if y == 0:
                        stop = min(end, i + 2 + x) if clip else min(len(flat), i + 2 + x)
                        total += 1 + length(flat, i + 2, stop, clip)
                        i += 2 + x
                    else:
                        stop = min(end, i + 1 + x) if clip else min(len(flat), i + 1 + x)
                        total += y * length(flat, i + 1, stop, clip)
                        i += 1 + x
                else:
                    total += 1
                    i += 1
            return total
        keys = sorted(td)
        rnd.shuffle(keys)
        picked = []
        for k in keys:
            flat = expand(k)
            ndel = sum(1 for d in flat if d.startswith('1') and d.endswith('000'))
            ok = all((d in tb or not d.startswith('0')) for d in flat) and not any(d.startswith('3') for d in flat)
            ops = [d for d in flat if d.startswith('2')]
            # (fixed replications with large counts make behaviours of 10 000 and more fields - 340001, 340009: states grow with
            # the output sequence, one such template does not finish in an hour)
            if ok and ndel <= 3 and len(flat) <= 60 and max(length(flat, 0, len(flat)), length(flat, 0, len(flat), False)) <= 400 and all(d[:3] in ('201', '202', '204', '207', '208') for d in ops) \
                    and not any(d in ('031011', '031012') for d in flat):
                picked.append([int(k)])
            if len(picked) >= (nquick if tier == 'quick' else 60):
                break
        out[mv] = picked
    return out


def dnp_templates():
    """221YYY whose span holds descriptors that are not elements (replications, a sequence, operators) and is used up exactly
    there, followed by ordinary elements.  What such a span means is pybufrkit's choice (FM94.DnpCountsMembers: every
    member visited counts); the hierarchical view and the flat data must agree about it whatever it is (C09)."""
    return [[221005, 102002, 7004, 12001, 10004, 11003],
            [221003, 302001, 12001],
            [221003, 201130, 12001, 201000, 10004, 1001],
            [221004, 101000, 31001, 12001, 10004, 11003, 13011],
            [221002, 101002, 12001, 10004],
            [1001, 221004, 103001, 12001, 4001, 10004, 11003, 2001]]


def nested_assoc_templates():
    """204YYY while another 204 is in force.  What that means for the data is pybufrkit's choice (FM94.AssocNestedAsSum, walked
    only with NestedAssoc = TRUE); the flat data and the hierarchical view must agree about it, in particular after the INNER
    204000, where one level of associated field is still in force."""
    return [[204004, 31021, 204002, 31021, 12001, 204000, 12001, 1015, 204000, 10004],
            [204003, 31021, 12001, 204005, 31021, 11003, 2001, 204000, 11003, 204000, 11003],
            [204002, 31021, 102002, 204001, 31021, 12001, 204000, 10004, 204000, 1001],
            [204004, 31021, 204002, 31021, 12001, 204000, 12001, 204000, 10004, 222000, 101003, 31031, 101000, 31001, 33007]]


def swapped_count_templates():
    return [t for t in open_templates() if t[:6] in ([101000, 31001, 12001, 101000, 31001, 10004], [101000, 31001, 12001, 101000, 31001, 1015])]


def sample(items, k, rnd):
    if k >= len(items):
        return list(items)
    return rnd.sample(items, k)


def catalogue(tier, seed=0):
    rnd = random.Random(1000003 * seed + 17)
    p, s, b = plain_templates(), struct_templates(), bitmap_templates()
    if tier == 'quick' and os.environ.get('VERIF_QUICK_SAMPLED'):
        # (kept for experiments) the seed rotates which of the heavier templates are included
        s = s[:8] + sample(s[8:], 5, rnd)
        b = b[:6] + sample(b[6:], 4, rnd)
    # grammar-derived templates (vf/gen.py): a fresh draw per seed, more of them in the thorough tier
    from . import gen
    n = 12 if tier == 'quick' else 60
    g = gen.generate(seed, n, n, n)
    out = {'plain': p, 'struct': s, 'bitmap': b, 'open': open_templates(), 'dnp': dnp_templates(), 'assoc2': nested_assoc_templates(), 'swap': swapped_count_templates(),
           'rnd_plain': g['plain'], 'rnd_struct': g['struct'], 'rnd_bitmap': g['bitmap']}
    # Table D sequences as one-descriptor templates (the sequences real messages are made of)
    for mv, seqs in table_d_sample(tier, seed, nquick=12).items():
        out['tabled_%d' % mv] = seqs
    return out
