"""Builds templates in a process that has first read table-definition messages from a stream (the prepbufr sample): the
standard descriptors, which those definitions do not mention, must expand as the table files of the selected version say -
whatever other versions were asked for before.   python -m vf.c14worker <job.json> <out.json>"""
import json
import sys


def main():
    job = json.load(open(sys.argv[1]))
    from pybufrkit.decoder import Decoder, generate_bufr_message
    from pybufrkit.tables import TableGroupCacheManager
    from pybufrkit.descriptors import flat_member_ids
    n = 0
    for m in generate_bufr_message(Decoder(), bytes(job['definitions']), info_only=False):
        n += 1
        if n >= job.get('stop_after', 3):
            break
    out = []
    for q in job['queries']:
        try:
            loc = q['local']
            g = TableGroupCacheManager.get_table_group(job['root'], 0, loc[0] if loc else 0, loc[1] if loc else 0, q['mv'], loc[2] if loc else 0)
            t = g.template_from_ids(q['id'])
            out.append(flat_member_ids(t))
        except Exception as e:
            out.append('exception %s' % type(e).__name__)
    json.dump(out, open(sys.argv[2], 'w'))


if __name__ == '__main__':
    main()
