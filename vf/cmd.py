"""Binding of Cmd.tla to the command line: every invocation TLC enumerates is run through pybufrkit.main() in-process
(real argument parsing, real command functions) on files written for it; what it prints and writes is compared with
the text the library API gives for the output items of the specification (renderings, query results and script output
are tied to their own specifications by C09 / C16 / C17 / C18 - here it is the dispatch that is judged: which messages,
which mode, which format, where processing stops, and that a library error is reported without a traceback)."""
import contextlib
import io
import json
import os
import sys

from . import tlc, fm94
from .common import MachineryError

POOL_DEF = [([12001, 2001, 1015], 4, False, 2), ([102000, 31001, 12001, 1015], 3, True, 2),
            ([12001, 14001, 223000, 101002, 31031, 101000, 31001, 223255], 4, False, 1), None, ([12001, 1001], 2, False, 1)]
POOL_ATTR = [(4, False), (3, False), (4, False), (4, True), (2, False)]
FILES = [[1], [2, 1], [1, 4, 3], [4], [5, 3], [2, 4]]
FILTER = '${%edition} == 4'
MD_QUERY, DATA_QUERY = '%edition', '012001'
PREAMBLE, OLD = 'ZCZC 123\r\r\n', b'OLD CONTENT\n'
MD_SCRIPT = 'print(${%edition}, ${%n_subsets}, PBK_FILENAME)'
DATA_SCRIPT = 'print(${%edition}, ${012001}, PBK_FILENAME)'


def build_pool(run, wd, sd):
    pool = []
    for k, d in enumerate(POOL_DEF):
        if d is None:
            octs = list(pool[0])
            octs[-1] = 56                     # 7778: stop signature damaged, total length intact
            pool.append(bytes(octs))
            continue
        ids, ed, cmp_, nsub = d
        res = fm94.gen_run(wd, 'MC_cmd_pool%d' % k, [ids], editions=(ed,), compressions=(cmp_,), subset_counts=(nsub,), seeds=((sd + k) % 5,), fmax=2)
        run.add_tlc(res, 'FM94 produce, command pool message %d' % (k + 1))
        behs = [b for b in res.iter_emitted() if not b['err']]
        b = max(behs, key=lambda b: (sum(len(s) for s in b['subsets']), b['msg']))
        pool.append(bytes(b['msg']))
    return pool


def tlc_run(wd, name, commands, stream_opts=True):
    consts = {'Pool': '<<' + ', '.join('[ed |-> %d, bad |-> %s]' % (e, 'TRUE' if b else 'FALSE') for e, b in POOL_ATTR) + '>>',
              'FileSet': '{' + ', '.join(tlc.tla_val(f) for f in FILES) + '}',
              'Commands': '{' + ', '.join('"%s"' % c for c in commands) + '}', 'StreamOpts': 'TRUE' if stream_opts else 'FALSE'}
    text = tlc.mc_module(name, ['Cmd'], consts)
    cfg = tlc.mc_cfg(consts, invariants=['TypeOK', 'ValidInputNeverFails', 'InfoAndSplitNeverFail', 'SplitPiecesAreTheMessages',
                                          'SingleModeIgnoresStreamOptions', 'FormatFromFlags', 'FilterAndContinue', 'AppendKeepsOld', 'ScriptLevelPrecedence', 'Emit'])
    res = tlc.run(wd, name, cfg, text, coverage=False, lazy_emitted=True)
    tlc.require_ok(res, name)
    return res


def _main(argv):
    """pybufrkit.main() in-process; returns (stdout, stderr, exception or None)."""
    import pybufrkit
    out, err = io.StringIO(), io.StringIO()
    old = sys.argv
    sys.argv = ['pybufrkit'] + argv
    exc = None
    try:
        with contextlib.redirect_stdout(out), contextlib.redirect_stderr(err):
            try:
                pybufrkit.main()
            except SystemExit as e:
                exc = e
            except BaseException as e:        # what the user would see as a traceback
                exc = e
    finally:
        sys.argv = old
    return out.getvalue(), err.getvalue(), exc


def _text_of(item, pool, names, case):
    """The text (or file content) the library API gives for one output item."""
    from pybufrkit.decoder import Decoder
    from pybufrkit.renderer import FlatTextRenderer, NestedTextRenderer, FlatJsonRenderer, NestedJsonRenderer
    from pybufrkit.utils import JSON_DUMPS_KWARGS
    k = item['k']
    if k == 'name':
        return names[item['f'] - 1] + '\n'
    if k == 'count':
        return '%s: %d\n' % (names[item['f'] - 1], item['n'])
    data = pool[item['m'] - 1]
    if k == 'render':
        m = Decoder().process(data, wire_template_data=False)
        fmt = item['fmt']
        if fmt.startswith('nested'):
            m.wire()
        if fmt == 'flat_text':
            return FlatTextRenderer().render(m) + '\n'
        if fmt == 'nested_text':
            return NestedTextRenderer().render(m) + '\n'
        r = (FlatJsonRenderer if fmt == 'flat_json' else NestedJsonRenderer)().render(m)
        return json.dumps(r, **JSON_DUMPS_KWARGS) + '\n'
    if k == 'info':
        m = Decoder().process(data, info_only=True)
        template, _ = m.build_template(None, normalize=1)       # (the flat text names the table group once it is known)
        t = FlatTextRenderer().render(m) + '\n'
        if item['tmpl']:
            t += FlatTextRenderer().render(template) + '\n'
        return t
    if k == 'md':
        from pybufrkit.mdquery import MetadataExprParser, MetadataQuerent
        m = Decoder().process(data, info_only=True)
        return '%s\n' % (MetadataQuerent(MetadataExprParser()).query(m, MD_QUERY),)
    if k == 'dq':
        from pybufrkit.dataquery import NodePathParser, DataQuerent
        m = Decoder().process(data, wire_template_data=True)
        qr = DataQuerent(NodePathParser()).query(m, DATA_QUERY)
        if item['fmt'] == 'flat_text':
            return FlatTextRenderer().render(qr) + '\n'
        r = (NestedJsonRenderer if item['fmt'] == 'nested_json' else FlatJsonRenderer)().render(qr)
        return json.dumps(r, **JSON_DUMPS_KWARGS) + '\n'
    if k == 'script':
        from pybufrkit.script import ScriptRunner
        sr = ScriptRunner(MD_SCRIPT if item['md'] else DATA_SCRIPT, data_values_nest_level=item['lvl'])
        fname = names[case['_fidx']]
        m = Decoder().process(data, file_path=fname, wire_template_data=True, info_only=sr.metadata_only)
        buf = io.StringIO()
        with contextlib.redirect_stdout(buf):
            sr.run(m)
        return buf.getvalue()
    raise MachineryError('unknown output item %r' % (item,))


def argv_of(inv, names):
    c, o = inv['cmd'], inv['o']
    a = [c]
    if c == 'decode':
        a += (['-j'] if o['json'] else []) + (['-a'] if o['attributed'] else []) + (['-m'] if o['multi'] else [])
        a += (['--continue-on-error'] if o['cont'] else []) + (['--filter', FILTER] if o['filt'] else [])
    elif c == 'info':
        a += (['-m'] if o['multi'] else []) + (['-c'] if o['count'] else []) + (['-t'] if o['tmpl'] else []) + (['--continue-on-error'] if o['cont'] else [])
    elif c == 'split':
        a += ['--continue-on-error'] if o['cont'] else []
    elif c == 'query':
        a += (['-j'] if o['json'] else []) + (['-n'] if o['nested'] else []) + [MD_QUERY if o['md'] else DATA_QUERY]
    elif c == 'script':
        body = MD_SCRIPT if o['md'] else DATA_SCRIPT
        a += (['-n', str(o['lvl'])] if o['lvl'] != -1 else []) + ['--', ('#$ data_values_nest_level = %d\n' % o['pragma'] if o['pragma'] != -1 else '') + body]
    elif c == 'encode':
        a += (['-j'] if o['json'] else []) + (['-a'] if o['attributed'] else []) + (['--append'] if o['append'] else [])
        a += ['--preamble', PREAMBLE] if o['pre'] else []
    return a + names


def run_case(case, pool, d):
    """One invocation.  Returns None or (signature, detail)."""
    inv = case['inv']
    names = []
    os.makedirs(d, exist_ok=True)
    for i, f in enumerate(inv['files']):
        fn = os.path.join(d, 'f%d.bufr' % i)
        with open(fn, 'wb') as fh:
            fh.write(b''.join(pool[m - 1] for m in f))
        names.append(fn)
    if inv['cmd'] == 'encode':
        return run_encode_case(case, pool, d, names)
    argv = argv_of(inv, names)
    out, err, exc = _main(argv)
    feat = inv['cmd'] + ',' + ','.join(k for k, v in sorted(inv['o'].items()) if v is True)
    if exc is not None and not (isinstance(exc, SystemExit) and exc.code in (0, None)):
        return (('cmd', 'traceback', type(exc).__name__, feat), 'pybufrkit %s ended with %r (the user sees a traceback or a usage error)' % (' '.join(argv[:-len(names)]), exc))
    if 'Traceback' in err:
        return (('cmd', 'traceback', 'stderr', feat), 'traceback on stderr: %s' % err[-300:])
    # expected text, item by item
    want = ''
    pieces = {}
    fidx = 0
    for item in case['out']:
        if item['k'] == 'piece':
            fn = '%s.%d' % (names[item['f'] - 1], item['i'])
            want += fn + '\n'
            pieces[fn] = pool[item['m'] - 1]
            continue
        if item['k'] == 'script':
            # the items of a script invocation come one per file, in order
            case['_fidx'] = fidx
            fidx += 1
        want += _text_of(item, pool, names, case)
    if case['status'] == 'error':
        if not err.strip():
            return (('cmd', 'error-not-reported', '', feat), 'the specification ends this invocation with the library error; nothing was reported on stderr')
    elif err.strip() and inv['cmd'] != 'decode':
        return (('cmd', 'unexpected-error', '', feat), 'stderr: %s' % err[-300:])
    elif err.strip() and not (inv['o'].get('cont') and inv['o'].get('multi')):
        return (('cmd', 'unexpected-error', '', feat), 'stderr: %s' % err[-300:])
    if out != want:
        k = next((i for i in range(min(len(out), len(want))) if out[i] != want[i]), min(len(out), len(want)))
        return (('cmd', 'output', 'differs', feat),
                'pybufrkit %s: output differs from the specification items at character %d (%d / %d characters): got %r, expected %r' % (
                    ' '.join(argv[:-len(names)]), k, len(out), len(want), out[max(0, k - 30):k + 50], want[max(0, k - 30):k + 50]))
    for fn, content in pieces.items():
        if not os.path.exists(fn) or open(fn, 'rb').read() != content:
            return (('cmd', 'split', 'piece-differs', feat), 'piece %s is not the message the specification names' % os.path.basename(fn))
    if inv['cmd'] == 'split':
        extra = [x for x in os.listdir(d) if x.count('.') == 2 and os.path.join(d, x) not in pieces]
        if extra:
            return (('cmd', 'split', 'extra-piece', feat), 'unexpected pieces %r' % (extra,))
    return None


def run_encode_case(case, pool, d, names):
    """encode: the input file holds the rendering of the message in the format of the flags; the output file is compared."""
    from pybufrkit.decoder import Decoder
    from pybufrkit.encoder import Encoder
    from pybufrkit.renderer import FlatJsonRenderer
    inv, item = case['inv'], case['out'][0]
    o = inv['o']
    data = pool[item['m'] - 1]
    text = _text_of({'k': 'render', 'fmt': item['fmt'], 'm': item['m']}, pool, names, case)
    fin, fout = os.path.join(d, 'in.txt'), os.path.join(d, 'out.bufr')
    with open(fin, 'w') as f:
        f.write(text)
    if o['exists']:
        with open(fout, 'wb') as f:
            f.write(OLD)
    argv = argv_of(inv, [fin, fout])
    out, err, exc = _main(argv)
    feat = 'encode,' + ','.join(k for k, v in sorted(o.items()) if v is True)
    if exc is not None and not (isinstance(exc, SystemExit) and exc.code in (0, None)):
        return (('cmd', 'traceback', type(exc).__name__, feat), 'pybufrkit %s ended with %r' % (' '.join(argv[:-2]), exc))
    if err.strip():
        return (('cmd', 'unexpected-error', '', feat), 'stderr: %s' % err[-300:])
    want_msg = bytes(Encoder().process(FlatJsonRenderer().render(Decoder().process(data))).serialized_bytes)
    want = (OLD if item['old'] else b'') + (PREAMBLE.encode('utf8') if item['pre'] else b'') + want_msg
    got = open(fout, 'rb').read() if os.path.exists(fout) else None
    if got != want:
        return (('cmd', 'encode', 'file-differs', feat), 'pybufrkit %s: the output file holds %s octets, the specification %d (old content kept: %s, preamble: %s)' % (
            ' '.join(argv[:-2]), 'no' if got is None else len(got), len(want), item['old'], item['pre']))
    return None


def _work(args):
    cases, pool, wd, base = args
    out = []
    import shutil
    for i, c in enumerate(cases):
        d = os.path.join(wd, 'cmd%d_%d' % (base, i))
        try:
            out.append(run_case(c, pool, d))
        finally:
            shutil.rmtree(d, ignore_errors=True)
    return out


def run_commands(run, wd, commands, sd, stream_opts=True):
    """Enumerate the invocations of `commands` with TLC and replay them; records violations on `run`."""
    import multiprocessing as mp
    pool = build_pool(run, wd, sd)
    res = tlc_run(wd, 'MC_cmd_' + '_'.join(commands), commands, stream_opts)
    if res.violated:
        run.violation(('spec', res.violated, 'Cmd'), 'Cmd invariant violated', tlc.error_trace(res))
    run.add_tlc(res, 'Cmd: every invocation of %s over %d file lists' % ('/'.join(commands), len(FILES) * (len(FILES) + 1)))
    cases = list(res.iter_emitted())
    if not cases:
        raise MachineryError('Cmd emitted no invocation')
    chunks = [(cases[i:i + 40], pool, wd, i) for i in range(0, len(cases), 40)]
    with mp.get_context('fork').Pool(14, initializer=fm94._init_worker) as p:
        outs = [x for c in p.map(_work, chunks) for x in c]
    n = 0
    for c, bad in zip(cases, outs):
        run.traces += 1
        n += 1
        run.nontriv(('cmd', json.dumps(c['inv'], sort_keys=True)))
        if bad:
            c = dict(c)
            c.pop('_fidx', None)
            run.violation(('cli',) + tuple(bad[0]), bad[1], {'kind': 'cmd', 'case': c, 'pool': [list(m) for m in pool]})
    run.notes['command_line_invocations_' + '_'.join(commands)] = n
    return n


def replay_case(d):
    return run_case(d['case'], [bytes(m) for m in d['pool']], os.path.join(os.environ.get('VERIF_WORK', '/tmp'), 'cmd_replay_%d' % os.getpid()))
