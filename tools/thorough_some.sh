#!/bin/bash
# usage: tools/thorough_some.sh C13 C01 ...   - the thorough tier of the named checks, one after the other
for p in "$@"; do
  s=$(date +%s); ./check $p --tier thorough > out.thorough.$p.txt 2>&1; rc=$?
  echo "$p rc=$rc secs=$(( $(date +%s) - s )) $(grep -c '^VIOLATION' out.thorough.$p.txt) viol :: $(tail -1 out.thorough.$p.txt)"
  grep -A2 '^VIOLATION' out.thorough.$p.txt | head -9
done
