#!/bin/bash
# usage: tools/run_on_mutant.sh <name> <PROP> [tier]   - applies seeded/<name>/patch.diff to /repo, runs the check, undoes it
name=$1; prop=$2; tier=${3:-quick}
cd /verif
git -C /repo diff --quiet || { echo "/repo working tree not clean"; exit 2; }
git -C /repo apply /verif/seeded/$name/patch.diff || { echo "patch does not apply"; exit 2; }
./check $prop --tier $tier > /tmp/mut_$name.$prop.out 2>&1; rc=$?
git -C /repo checkout -- .
grep -E 'VIOLATION|KNOWN-FINDING|MACHINERY|tier=' /tmp/mut_$name.$prop.out | head -8
echo "check rc=$rc"
