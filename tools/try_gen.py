#!/venv/bin/python
"""Exploration tool: random WF templates (vf/gen.py) through the FM94 produce form and the decode / encode replay.
   tools/try_gen.py SEED [N] [mversion]"""
import sys, os, json, collections
sys.path.insert(0, os.path.dirname(os.path.dirname(os.path.abspath(__file__))))
from vf import common, gen, fm94, tlc
common.ensure_repo_import()
seed = int(sys.argv[1]); n = int(sys.argv[2]) if len(sys.argv) > 2 else 20
mv = int(sys.argv[3]) if len(sys.argv) > 3 else 33
cat = gen.generate(seed, n, n, n)
wd = common.workdir('trygen')
tot = collections.Counter()
for group, kw in (('plain', dict(subset_counts=(1, 2), seeds=(seed % 5,), slack=0)),
                  ('struct', dict(subset_counts=(1, 2), seeds=((seed + 1) % 5,), fmax=2)),
                  ('bitmap', dict(subset_counts=(1, 2), seeds=((seed + 2) % 5,), fmax=2))):
    res = fm94.gen_run(wd, 'MC_try_' + group, cat[group], mversion=mv, **kw)
    if res.violated:
        print('SPEC INVARIANT', res.violated); print(tlc.error_trace(res)[:3000])
    behs = list(res.iter_emitted())
    good = [b for b in behs if not b['err']]
    errs = collections.Counter((tuple(b['ids']), b['err']) for b in behs if b['err'])
    print(group, 'states', res.distinct, 'wall %.1f' % res.wall, 'behaviours', len(behs), 'good', len(good), 'templates with good', len({tuple(b['ids']) for b in good}), '/', len(cat[group]))
    for (ids, e), c in list(errs.items())[:6]:
        print('   err', e, c, list(ids))
    results = fm94.replay_all(good, ('decode', 'encode'))
    bad = collections.OrderedDict()
    for beh, r in zip(good, results):
        for k in ('bad_dec', 'bad_enc'):
            if r[k]:
                bad.setdefault((tuple(beh['ids']), k, tuple(r[k][0])), (r[k][1], beh))
    for (ids, k, sig), (detail, beh) in list(bad.items())[:12]:
        print('  MISMATCH', k, sig, list(ids), 'cmp' if beh['cmp'] else 'unc', 'nsub', beh['nsub'], '::', detail[:200])
    tot['mismatch'] += len(bad); tot['good'] += len(good)
common.rm_workdir(wd)
print('TOTAL', dict(tot))
