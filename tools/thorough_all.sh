#!/bin/bash
# every thorough check once on the unchanged tree
for p in C01 C02 C03 C04 C05 C06 C07 C08 C09 C10 C11 C12 C13 C14 C15 C16 C17 C18 C19 C20; do
  s=$(date +%s); ./check $p --tier thorough > out.thorough.$p.txt 2>&1; rc=$?
  echo "$p rc=$rc secs=$(( $(date +%s) - s )) $(grep -c '^VIOLATION' out.thorough.$p.txt) viol :: $(tail -1 out.thorough.$p.txt)"
  grep -A2 '^VIOLATION' out.thorough.$p.txt | head -9
done
