#!/bin/bash
# every quick check under several seeds on the unchanged tree; prints one line per (seed, check)
for s in 1 2 3 4 5 6 7; do
  for p in C01 C02 C03 C04 C05 C06 C07 C08 C09 C10 C11 C12 C13 C14 C15 C16 C17 C18 C19 C20; do
    VERIF_SEED=$s ./check $p --tier quick > out.$s.$p.txt 2>&1; rc=$?
    echo "seed=$s $p rc=$rc $(grep -c '^VIOLATION' out.$s.$p.txt) viol $(grep -c KNOWN-FINDING out.$s.$p.txt) known"
    grep -A2 '^VIOLATION' out.$s.$p.txt | head -9
  done
done
