#!/venv/bin/python
"""Run checks against seeded changes without touching /repo: each change is applied to a scratch
worktree of /repo's HEAD (under /tmp, removed afterwards) and the check runs with VERIF_REPO pointing
at it and evidence / replays / work redirected to a scratch directory.

  tools/matrix.py [--tier quick] [--jobs 3] [--all-props] name[:PROP[,PROP..]] ...
  tools/matrix.py --seeded            # every /verif/seeded/<name> against its own property

A change is taken from /verif/seeded/<name>/patch.diff or /tmp/mut/<name>/patch.diff.
Prints one line per (change, property): caught / MISSED / machinery, and writes /tmp/mx/<name>.<PROP>.out.
"""
import argparse
import json
import os
import shutil
import subprocess
import sys
from concurrent.futures import ThreadPoolExecutor

VERIF = os.path.dirname(os.path.dirname(os.path.abspath(__file__)))
SRC = VERIF        # where the checks are run from: a snapshot of the committed /verif unless --live
ALL = ['C%02d' % i for i in range(1, 21)]


def patch_of(name):
    for d in (os.path.join(VERIF, 'seeded', name), os.path.join('/tmp/mut', name)):
        p = os.path.join(d, 'patch.diff')
        if os.path.exists(p):
            return p, d
    raise SystemExit('no patch for %s' % name)


def prop_of(name, d):
    try:
        return json.load(open(os.path.join(d, 'meta.json')))['property']
    except Exception:
        return name[:3].upper()


def one(job):
    name, prop, tier = job
    patch, d = patch_of(name)
    wt = '/tmp/wt/mx_%s_%s' % (name, prop)
    out = '/tmp/mx/%s.%s' % (name, prop)
    subprocess.run(['git', '-C', '/repo', 'worktree', 'remove', '--force', wt], stdout=subprocess.DEVNULL, stderr=subprocess.DEVNULL)
    shutil.rmtree(out, ignore_errors=True)
    os.makedirs(out)
    try:
        subprocess.run(['git', '-C', '/repo', 'worktree', 'add', '-q', '--detach', wt, 'HEAD'], check=True, stdout=subprocess.DEVNULL)
        p = subprocess.run(['git', '-C', wt, 'apply', patch], stderr=subprocess.PIPE)
        if p.returncode:
            return name, prop, 'patch-does-not-apply', p.stderr.decode()[:200]
        env = dict(os.environ, VERIF_REPO=wt, VERIF_EVIDENCE=out + '/evidence', VERIF_REPLAYS=out + '/replays', VERIF_WORK=out + '/work')
        p = subprocess.run([os.path.join(SRC, 'check'), prop, '--tier', tier], cwd=SRC, env=env, stdout=subprocess.PIPE, stderr=subprocess.STDOUT)
        text = p.stdout.decode('utf-8', 'replace')
        with open(out + '.out', 'w') as f:
            f.write(text)
        viol = [l for l in text.splitlines() if l.startswith('VIOLATION')]
        sigs = [l.strip() for l in text.splitlines() if l.strip().startswith('signature=')]
        if p.returncode == 1 and viol:
            return name, prop, 'caught', '%d violation(s); first %s' % (len(viol), sigs[0] if sigs else '')
        if p.returncode == 0:
            return name, prop, 'MISSED', ''
        return name, prop, 'machinery rc=%d' % p.returncode, text[-300:].replace('\n', ' | ')
    finally:
        subprocess.run(['git', '-C', '/repo', 'worktree', 'remove', '--force', wt], stdout=subprocess.DEVNULL, stderr=subprocess.DEVNULL)
        shutil.rmtree(out, ignore_errors=True)


def main():
    ap = argparse.ArgumentParser()
    ap.add_argument('names', nargs='*')
    ap.add_argument('--tier', default='quick')
    ap.add_argument('--jobs', type=int, default=3)
    ap.add_argument('--seeded', action='store_true')
    ap.add_argument('--all-props', action='store_true')
    ap.add_argument('--live', action='store_true', help='run the checks from /verif itself instead of a snapshot of its HEAD')
    a = ap.parse_args()
    global SRC
    if not a.live:
        SRC = '/tmp/mxsnap_%d' % os.getpid()
        subprocess.run(['git', '-C', VERIF, 'worktree', 'add', '-q', '--detach', SRC, 'HEAD'], check=True)
    os.makedirs('/tmp/mx', exist_ok=True)
    os.makedirs('/tmp/wt', exist_ok=True)
    names = list(a.names)
    if a.seeded:
        names += sorted(os.listdir(os.path.join(VERIF, 'seeded')))
    jobs = []
    for n in names:
        if ':' in n:
            n, ps = n.split(':')
            props = ps.split(',')
        else:
            props = ALL if a.all_props else [prop_of(n, patch_of(n)[1])]
        jobs += [(n, p, a.tier) for p in props]
    rc = 0
    with ThreadPoolExecutor(a.jobs) as ex:
        for name, prop, verdict, info in ex.map(one, jobs):
            print('%-6s %-4s %-10s %s' % (name, prop, verdict, info))
            sys.stdout.flush()
            if verdict != 'caught':
                rc = 1
    if not a.live:
        subprocess.run(['git', '-C', VERIF, 'worktree', 'remove', '--force', SRC])
    return rc


if __name__ == '__main__':
    sys.exit(main())
