#!/bin/bash
# usage: tools/run_on_tree.sh <tree> <outdir> [checks...]   - every quick check against another checkout of pybufrkit
# (a scratch worktree with patches applied); evidence, replays and work are redirected, /repo and /verif/evidence untouched
tree=$1; out=$2; shift 2
props=${@:-C01 C02 C03 C04 C05 C06 C07 C08 C09 C10 C11 C12 C13 C14 C15 C16 C17 C18 C19 C20}
mkdir -p $out
cd "$(dirname "$0")/.."
for p in $props; do
  s=$(date +%s)
  VERIF_REPO=$tree VERIF_EVIDENCE=$out/evidence VERIF_REPLAYS=$out/replays VERIF_WORK=$out/work ./check $p --tier ${VERIF_TIER:-quick} > $out/$p.out 2>&1; rc=$?
  echo "$p rc=$rc secs=$(( $(date +%s) - s )) $(grep -c '^VIOLATION' $out/$p.out) viol :: $(grep -m1 'signature=' $out/$p.out)"
done
