#!/bin/bash
# usage: tools/confirm_mutant.sh <name> <PROP> [skiptests]
# Confirms a seeded change delivered in /tmp/mut/<name>/ (patch.diff demo.py meta.json):
#  - demo passes on a clean scratch worktree and fails with the patch
#  - the repository's test suite passes with the patch
# then stores it as /verif/seeded/<name>/ . Does not touch /repo's working tree.
set -u
name=$1; prop=$2; skip=${3:-}
src=/tmp/mut/$name
wt=/tmp/wt/confirm_$name
dst=/verif/seeded/$name
git -C /repo worktree remove --force $wt 2>/dev/null
git -C /repo worktree add -q --detach $wt HEAD || exit 2
cd $wt
out_clean=$(PYTHONPATH=$wt /venv/bin/python $src/demo.py 2>&1 | grep -v WARNING | tail -3); rc_clean=${PIPESTATUS[0]}
PYTHONPATH=$wt /venv/bin/python $src/demo.py >/dev/null 2>&1; rc_clean=$?
git apply $src/patch.diff || { echo "PATCH DOES NOT APPLY"; git -C /repo worktree remove --force $wt; exit 2; }
PYTHONPATH=$wt /venv/bin/python $src/demo.py > /tmp/mut/$name/demo_with.txt 2>&1; rc_mut=$?
tests="skipped"
if [ -z "$skip" ]; then
  tests=$(PYTHONPATH=$wt /venv/bin/python -m pytest -q -p no:cacheprovider --timeout=900 2>&1 | tail -1)
fi
cd /
git -C /repo worktree remove --force $wt
echo "clean demo rc=$rc_clean ; mutated demo rc=$rc_mut ; tests: $tests"
if [ $rc_clean -eq 0 ] && [ $rc_mut -ne 0 ]; then
  mkdir -p $dst
  cp $src/patch.diff $src/demo.py $dst/
  /venv/bin/python - "$src/meta.json" "$dst/meta.json" "$prop" "$rc_clean" "$rc_mut" "$tests" <<'PY'
import json, sys
src, dst, prop, rc_clean, rc_mut, tests = sys.argv[1:7]
try:
    m = json.load(open(src))
except Exception:
    m = {}
m['property'] = prop
m['confirmed'] = {'demo_rc_clean_tree': int(rc_clean), 'demo_rc_with_patch': int(rc_mut), 'repo_tests_with_patch': tests,
                  'how': 'tools/confirm_mutant.sh: scratch worktree of /repo HEAD, demo.py run before and after git apply patch.diff, then the pinned pytest suite on the patched tree'}
json.dump(m, open(dst, 'w'), indent=1)
PY
  echo "stored $dst"
else
  echo "NOT CONFIRMED"
fi
